//! Independent oracles (never call into riti's private logic).
pub mod layout;
pub mod phon;
