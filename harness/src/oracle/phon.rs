//! Oracles for the phonetic method: O-avro, O-split, O-dict, O-emoji.
//! None of this calls into riti; the third-party crates riti itself links
//! (okkhor, emojicon) are called directly, the data files are parsed independently.

use crate::base::*;
use okkhor::parser::Parser;
use regex::Regex;
use std::collections::{HashMap, HashSet};
use std::rc::Rc;

pub const META: &str = "-]~!@#%&*()_=+[{}'\";<>/?|.,।";
/// the punctuation set of the C03 statement (ASCII part of META)
pub const PUNCT: &str = "-]~!@#%&*()_=+[{}'\";<>/?|.,";

/// O-split: forward scan for the leading part, right-to-left automaton for the trailing part.
pub fn split(s: &str, colon: bool) -> (String, String, String) {
    let cs: Vec<char> = s.chars().collect();
    let mut a = 0;
    while a < cs.len() && META.contains(cs[a]) {
        a += 1;
    }
    if a == cs.len() {
        return (s.to_string(), String::new(), String::new());
    }
    let mut end = cs.len();
    let mut i = cs.len();
    let mut pending_tick = false;
    while i > a {
        let c = cs[i - 1];
        if c == '`' && !pending_tick {
            pending_tick = true;
            i -= 1;
            continue;
        }
        let is_meta = META.contains(c) || (c == ':' && (colon || pending_tick));
        if is_meta {
            pending_tick = false;
            i -= 1;
            end = i;
            continue;
        }
        break;
    }
    (cs[..a].iter().collect(), cs[a..end].iter().collect(), cs[end..].iter().collect())
}

/// The 15 examples of riti's own test_splitted_string, used as a start-up self-test of O-split.
pub fn split_self_test() -> Result<(), String> {
    let ex: [(&str, bool, (&str, &str, &str)); 15] = [
        ("[][][][]", false, ("[][][][]", "", "")),
        ("t*", false, ("", "t", "*")),
        ("1", false, ("", "1", "")),
        ("#\"percent%sign\"#", false, ("#\"", "percent%sign", "\"#")),
        ("*[মেটা]*", false, ("*[", "মেটা", "]*")),
        ("text", false, ("", "text", "")),
        ("kt:", false, ("", "kt:", "")),
        ("kt:", true, ("", "kt", ":")),
        ("kt:`", false, ("", "kt", ":`")),
        ("kt:`", true, ("", "kt", ":`")),
        ("kt::`", false, ("", "kt:", ":`")),
        ("kt::`", true, ("", "kt", "::`")),
        ("kt``", false, ("", "kt``", "")),
        ("kt:``", false, ("", "kt:``", "")),
        ("।ঃমেঃ।টাঃ।", false, ("।", "ঃমেঃ।টাঃ", "।")),
    ];
    for (s, c, (p, w, t)) in ex {
        let got = split(s, c);
        if (got.0.as_str(), got.1.as_str(), got.2.as_str()) != (p, w, t) {
            return Err(format!("O-split self-test failed on {s:?} colon={c}: {got:?}"));
        }
    }
    Ok(())
}

pub fn is_vowel(c: char) -> bool {
    // independent vowels U+0985-0994 and vowel signs U+09BE-09CC (Unicode chart)
    "অআইঈউঊঋএঐওঔািীুূৃেৈোৌ".contains(c)
}
pub fn is_sign(c: char) -> bool {
    "ািীুূৃেৈোৌ".contains(c)
}
pub fn is_rare_letter(c: char) -> bool {
    "ঌৠৡৄৢৣ".contains(c)
}

/// Join a base candidate with the Bengali form of a suffix, by the three rules of the C08 statement.
/// None when the statement leaves the outcome open (rare letters) or a part is empty.
pub fn join(base: &str, suf: &str) -> Option<String> {
    let r = base.chars().last()?;
    let l = suf.chars().next()?;
    if is_rare_letter(r) || is_rare_letter(l) {
        return None;
    }
    let mut w = base.to_string();
    if is_vowel(r) && is_sign(l) {
        w.push('\u{09DF}');
    } else if r == 'ৎ' {
        w.pop();
        w.push('ত');
    } else if r == 'ং' {
        w.pop();
        w.push('ঙ');
    }
    w.push_str(suf);
    Some(w)
}

/// Which joining rule applies (for coverage accounting).
pub fn join_cell(base: &str, suf: &str) -> &'static str {
    let (Some(r), Some(l)) = (base.chars().last(), suf.chars().next()) else { return "empty" };
    if is_vowel(r) && is_sign(l) {
        "vowel+sign"
    } else if r == 'ৎ' {
        "khanda-ta"
    } else if r == 'ং' {
        "anusvara"
    } else {
        "plain"
    }
}

/// Candidates `d` such that join(d, suf) == joined (un-joining by the three rules).
pub fn unjoin(joined: &str, suf: &str) -> Vec<String> {
    let Some(stem) = joined.strip_suffix(suf) else { return vec![] };
    let mut out = vec![];
    let l = suf.chars().next();
    let last = stem.chars().last();
    // plain (rare letters: the statement leaves the rule open, so both readings are admitted)
    if let Some(r) = last {
        let vowel_sign = l.map_or(false, |l| is_vowel(r) && is_sign(l));
        if !vowel_sign && r != 'ৎ' && r != 'ং' {
            out.push(stem.to_string());
        }
    }
    // inserted য়
    if let Some(inner) = stem.strip_suffix('\u{09DF}') {
        if let (Some(r), Some(l)) = (inner.chars().last(), l) {
            if (is_vowel(r) || is_rare_letter(r)) && (is_sign(l) || is_rare_letter(l)) {
                out.push(inner.to_string());
            }
        }
    }
    // ত <- ৎ ; ঙ <- ং
    if let Some(inner) = stem.strip_suffix('ত') {
        out.push(format!("{inner}ৎ"));
    }
    if let Some(inner) = stem.strip_suffix('ঙ') {
        out.push(format!("{inner}ং"));
    }
    out
}

#[derive(Clone, Debug, PartialEq, Eq)]
pub enum Why {
    AutoCorrect,
    /// direct dictionary match, with its ordering key (10 x distance to the transliteration)
    Dict(i32),
    /// suffix-built from a direct candidate of a proper prefix; inherits that candidate's key (-1 for an auto-correct base)
    Suffix(i32, usize),
    Translit,
}

impl Why {
    pub fn key(&self) -> Option<i32> {
        match self {
            Why::AutoCorrect => Some(-1),
            Why::Dict(k) => Some(*k),
            Why::Suffix(k, _) => Some(*k),
            Why::Translit => None,
        }
    }
}

pub struct PhonOracle {
    pub ph: Parser,
    pub rx: Parser,
    pub words: HashSet<String>,
    pub tables: HashMap<String, Vec<String>>,
    pub suffix: HashMap<String, String>,
    pub ac: HashMap<String, String>,
    pub emoticons: HashMap<&'static str, &'static str>,
    pub emojis: HashMap<&'static str, &'static [&'static str]>,
    pub bn_emojis: HashMap<&'static str, &'static [&'static str]>,
    pub emoji_set: HashSet<&'static str>,
    rx_memo: HashMap<String, Option<Rc<Regex>>>,
}

impl PhonOracle {
    pub fn new() -> Result<Self, String> {
        split_self_test()?;
        let rd = |f: &str| std::fs::read_to_string(format!("{REPO}/data/{f}")).map_err(|e| format!("{f}: {e}"));
        let tables: HashMap<String, Vec<String>> = serde_json::from_str(&rd("dictionary.json")?).map_err(|e| e.to_string())?;
        let suffix: HashMap<String, String> = serde_json::from_str(&rd("suffix.json")?).map_err(|e| e.to_string())?;
        let ac: HashMap<String, String> = serde_json::from_str(&rd("autocorrect.json")?).map_err(|e| e.to_string())?;
        let words: HashSet<String> = tables.values().flatten().cloned().collect();
        let emoticons = emojicon::internal::emoticons();
        let emojis = emojicon::internal::emojis();
        let bn_emojis = emojicon::internal::bn_emojis();
        let mut emoji_set: HashSet<&'static str> = HashSet::new();
        emoji_set.extend(emoticons.values().copied());
        for l in emojis.values().chain(bn_emojis.values()) {
            emoji_set.extend(l.iter().copied());
        }
        Ok(PhonOracle { ph: Parser::new_phonetic(), rx: Parser::new_regex(), words, tables, suffix, ac, emoticons, emojis, bn_emojis, emoji_set, rx_memo: HashMap::new() })
    }

    pub fn avro(&self, s: &str) -> String {
        if s.is_ascii() {
            self.ph.convert(s)
        } else {
            // okkhor slices by byte and panics on non-ASCII input; nothing typeable is non-ASCII
            guard(|| self.ph.convert(s)).unwrap_or_else(|_| s.to_string())
        }
    }

    /// Compiled Avro pattern of a typed word (None when it does not compile, e.g. too large).
    pub fn pattern(&mut self, w: &str) -> Option<Rc<Regex>> {
        if let Some(r) = self.rx_memo.get(w) {
            return r.clone();
        }
        if self.rx_memo.len() > 150 {
            self.rx_memo.clear();
        }
        let r = Regex::new(&self.rx.convert_regex(w)).ok().map(Rc::new);
        self.rx_memo.insert(w.to_string(), r.clone());
        r
    }

    /// Own auto-correct entry of `w` (user list first), transliterated.
    pub fn autocorrect(&self, w: &str, user: Option<&HashMap<String, String>>) -> Option<String> {
        let raw = user.and_then(|u| u.get(w)).or_else(|| self.ac.get(w))?;
        Some(self.avro(raw))
    }

    /// Is `c` a direct dictionary match of the typed word `w`?
    pub fn is_dict_match(&mut self, w: &str, c: &str) -> bool {
        if !self.words.contains(c) {
            return false;
        }
        match self.pattern(w) {
            Some(r) => r.is_match(c),
            None => false,
        }
    }

    /// All explanations of candidate `m` (wrapping already removed) for the typed word `w`.
    pub fn explain(&mut self, w: &str, m: &str, user: Option<&HashMap<String, String>>) -> Vec<Why> {
        let mut out = vec![];
        let translit = self.avro(w);
        if self.autocorrect(w, user).as_deref() == Some(m) {
            out.push(Why::AutoCorrect);
        }
        if self.is_dict_match(w, m) {
            out.push(Why::Dict((lev(&translit, m) * 10) as i32));
        }
        if w.len() > 2 && w.is_ascii() {
            for k in 1..w.len() {
                let (b, s) = (&w[..k], &w[k..]);
                let Some(sf) = self.suffix.get(s).cloned() else { continue };
                for d in unjoin(m, &sf) {
                    if d.is_empty() {
                        continue;
                    }
                    if self.autocorrect(b, user).as_deref() == Some(d.as_str()) {
                        out.push(Why::Suffix(-1, k));
                    }
                    if self.is_dict_match(b, &d) {
                        let bt = self.avro(b);
                        out.push(Why::Suffix((lev(&bt, &d) * 10) as i32, k));
                    }
                }
            }
        }
        if m == translit {
            out.push(Why::Translit);
        }
        out
    }

    pub fn is_emoji(&self, s: &str) -> bool {
        self.emoji_set.contains(s)
    }
    /// Does `s` contain any emoji of the tables as a substring?
    pub fn contains_emoji(&self, s: &str) -> bool {
        if s.is_ascii() {
            return false;
        }
        if s.chars().all(|c| BENGALI_BLOCK.contains(&c) || c.is_ascii() || c == '\u{200C}' || c == '\u{200D}' || "‘’“”।॥".contains(c)) {
            return false;
        }
        self.emoji_set.iter().any(|e| s.contains(e))
    }
}
