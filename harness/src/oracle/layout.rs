//! O-layout: the layout JSON read independently, addressed through the key table
//! transcribed from riti.h (keytab.rs).

use crate::base::*;
use crate::keytab::KEYS;
use serde_json::Value;
use std::collections::HashMap;

pub struct LayoutOracle {
    pub lay: Lay,
    pub map: HashMap<String, String>,
}

impl LayoutOracle {
    pub fn load(lay: Lay) -> Result<Self, String> {
        // the relative name is resolved against the working directory of the process: the twin's directory
        let path = if lay == Lay::Relative { Lay::Twin.path() } else { lay.path() };
        let s = std::fs::read_to_string(&path).map_err(|e| format!("{path}: {e}"))?;
        let v: Value = serde_json::from_str(&s).map_err(|e| format!("{}: {e}", lay.path()))?;
        let obj = v.get("layout").and_then(|l| l.as_object()).ok_or("no layout object")?;
        let mut map = HashMap::new();
        for (k, val) in obj {
            map.insert(k.clone(), val.as_str().ok_or("non-string layout value")?.to_string());
        }
        let o = LayoutOracle { lay, map };
        o.self_check()?;
        Ok(o)
    }

    /// Every entry of the file must be addressed by exactly one (key, plane) of the table.
    fn self_check(&self) -> Result<(), String> {
        let mut addressed: HashMap<String, usize> = HashMap::new();
        for k in KEYS {
            let Some(e) = k.entry else { continue };
            if k.numpad {
                *addressed.entry(e.to_string()).or_default() += 1;
            } else {
                for plane in ["Normal", "AltGr"] {
                    *addressed.entry(format!("Key_{e}_{plane}")).or_default() += 1;
                }
            }
        }
        for name in self.map.keys() {
            match addressed.get(name) {
                Some(1) => {}
                Some(n) => return Err(format!("layout entry {name} addressed {n} times by the key table")),
                None => return Err(format!("layout entry {name} is not addressed by the key table")),
            }
        }
        Ok(())
    }

    /// The text the layout assigns to (code, modifier) — None when the key must be inert.
    pub fn value(&self, code: u16, modifier: u8, numpad_on: bool) -> Option<&str> {
        let k = keydef(code)?;
        let e = k.entry?;
        let v = if k.numpad {
            if !numpad_on {
                return None;
            }
            self.map.get(e)?
        } else {
            let plane = if modifier & 2 != 0 { "AltGr" } else { "Normal" };
            self.map.get(&format!("Key_{e}_{plane}"))?
        };
        if v.is_empty() {
            None
        } else {
            Some(v.as_str())
        }
    }

    /// Reverse map: single-code-point value -> (code, modifier, raw ASCII char of the key), main block only,
    /// Normal plane preferred.
    pub fn reverse(&self) -> HashMap<char, (u16, u8, char)> {
        let mut m = HashMap::new();
        for (plane, md) in [("Normal", 0u8), ("AltGr", 2u8)] {
            for k in KEYS {
                if k.numpad {
                    continue;
                }
                let (Some(e), Some(ch)) = (k.entry, k.ch) else { continue };
                if let Some(v) = self.map.get(&format!("Key_{e}_{plane}")) {
                    let cs: Vec<char> = v.chars().collect();
                    if cs.len() == 1 && !(cs[0] == 'E' && md == 2) {
                        m.entry(cs[0]).or_insert((k.code, md, ch));
                    }
                }
            }
        }
        m
    }

    /// Key (code, modifier) whose value is exactly `val`.
    pub fn key_for_value(&self, val: &str) -> Option<(u16, u8)> {
        for (plane, md) in [("Normal", 0u8), ("AltGr", 2u8)] {
            for k in KEYS {
                if k.numpad {
                    continue;
                }
                let Some(e) = k.entry else { continue };
                if self.map.get(&format!("Key_{e}_{plane}")).map(|s| s.as_str()) == Some(val) {
                    return Some((k.code, md));
                }
            }
        }
        None
    }
}
