//! Per-shard result accumulator, violations, known findings.

use crate::base::*;
use serde_json::{json, Map, Value};
use std::collections::{BTreeMap, HashMap, HashSet};
use std::io::Write;
use std::path::{Path, PathBuf};

#[derive(Clone, Debug)]
pub struct Violation {
    pub clause: String,
    /// canonical signature: clause + minimal discriminating facts
    pub sig: String,
    pub case: Value,
    pub expected: String,
    pub observed: String,
    pub count: u64,
}

impl Violation {
    pub fn to_json(&self) -> Value {
        json!({"clause": self.clause, "signature": self.sig, "case": self.case,
               "expected": self.expected, "observed": self.observed, "count": self.count})
    }
    pub fn from_json(v: &Value) -> Option<Violation> {
        Some(Violation {
            clause: v.get("clause")?.as_str()?.to_string(),
            sig: v.get("signature")?.as_str()?.to_string(),
            case: v.get("case")?.clone(),
            expected: v.get("expected")?.as_str()?.to_string(),
            observed: v.get("observed")?.as_str()?.to_string(),
            count: v.get("count").and_then(|c| c.as_u64()).unwrap_or(1),
        })
    }
}

/// One entry of /verif/known_findings.json
#[derive(Clone, Debug)]
pub struct KnownFinding {
    pub id: String,
    pub property: String,
    pub status: String,
    pub classifier: String,
    pub params: Value,
    pub what: String,
}

pub fn load_known_findings() -> Vec<KnownFinding> {
    let p = format!("{VERIF}/known_findings.json");
    let Ok(s) = std::fs::read_to_string(&p) else { return vec![] };
    let v: Value = serde_json::from_str(&s).unwrap_or_else(|e| panic!("known_findings.json is not valid JSON: {e}"));
    let mut out = vec![];
    for e in v.get("findings").and_then(|f| f.as_array()).cloned().unwrap_or_default() {
        let g = |k: &str| e.get(k).and_then(|x| x.as_str()).unwrap_or("").to_string();
        out.push(KnownFinding {
            id: g("id"),
            property: g("property"),
            status: g("status"),
            classifier: g("classifier"),
            params: e.get("params").cloned().unwrap_or(Value::Null),
            what: g("what"),
        });
    }
    out
}

/// Environment of one shard run.
#[derive(Clone, Debug)]
pub struct Env {
    pub tier: Tier,
    pub seed: u64,
    pub shard: usize,
    pub nshards: usize,
    /// scratch directory owned by this shard (user-data roots are created below it)
    pub scratch: PathBuf,
    pub replaying: bool,
}

impl Env {
    pub fn rng(&self, tag: &str) -> Rng {
        Rng::derive(self.seed, tag, self.shard)
    }
    /// Is item `i` of a global enumeration handled by this shard?
    pub fn mine(&self, i: usize) -> bool {
        i % self.nshards == self.shard
    }
    pub fn root(&self, name: &str) -> PathBuf {
        self.scratch.join(name)
    }
}

type Classifier = Box<dyn Fn(&str, &Value, &Violation) -> bool>;

pub struct Out {
    pub prop: String,
    pub counters: BTreeMap<String, u64>,
    pub maxima: BTreeMap<String, u64>,
    pub distinct: HashSet<u64>,
    pub distinct_cap: usize,
    pub distinct_overflow: bool,
    pub samples: Vec<Value>,
    pub sample_cap: usize,
    pub violations: Vec<Violation>,
    pub violation_index: HashMap<String, usize>,
    pub dropped_violations: u64,
    /// known-finding id -> (hits, first example)
    pub known: BTreeMap<String, (u64, Value)>,
    pub notes: Vec<String>,
    /// cross-process observations: question -> (answer, where it was answered). Every worker process that asks the same
    /// question must get the same answer; the orchestrator compares them when it merges the shard results.
    pub xobs: BTreeMap<String, (String, String)>,
    kfs: Vec<KnownFinding>,
    classifier: Option<Classifier>,
    journal: Option<std::fs::File>,
    pub cases: u64,
}

impl Out {
    pub fn new(prop: &str) -> Out {
        Out {
            prop: prop.to_string(),
            counters: BTreeMap::new(),
            maxima: BTreeMap::new(),
            distinct: HashSet::new(),
            distinct_cap: 3_000_000,
            distinct_overflow: false,
            samples: vec![],
            sample_cap: 4,
            violations: vec![],
            violation_index: HashMap::new(),
            dropped_violations: 0,
            known: BTreeMap::new(),
            notes: vec![],
            xobs: BTreeMap::new(),
            kfs: vec![],
            classifier: None,
            journal: None,
            cases: 0,
        }
    }
    pub fn set_known(&mut self, kfs: Vec<KnownFinding>, classifier: Classifier) {
        self.kfs = kfs.into_iter().filter(|k| k.property == self.prop && k.status == "open").collect();
        self.classifier = Some(classifier);
    }
    pub fn set_journal(&mut self, path: &Path) {
        self.journal = Some(std::fs::File::create(path).expect("journal"));
    }
    pub fn journaling(&self) -> bool {
        self.journal.is_some()
    }
    /// Announce the case about to be executed. Costs nothing unless the shard
    /// is being re-run in journal mode after a worker died.
    #[inline]
    pub fn begin_case(&mut self, f: impl FnOnce() -> Value) {
        self.cases += 1;
        if let Some(j) = self.journal.as_mut() {
            let v = f();
            let _ = writeln!(j, "{}", v);
            let _ = j.flush();
        }
    }
    #[inline]
    pub fn count(&mut self, name: &str, n: u64) {
        if n == 0 {
            self.counters.entry(name.to_string()).or_insert(0);
            return;
        }
        match self.counters.get_mut(name) {
            Some(c) => *c += n,
            None => {
                self.counters.insert(name.to_string(), n);
            }
        }
    }
    #[inline]
    pub fn max(&mut self, name: &str, v: u64) {
        match self.maxima.get_mut(name) {
            Some(c) => {
                if v > *c {
                    *c = v
                }
            }
            None => {
                self.maxima.insert(name.to_string(), v);
            }
        }
    }
    #[inline]
    pub fn distinct(&mut self, h: u64) {
        if self.distinct.len() < self.distinct_cap {
            self.distinct.insert(h);
        } else if !self.distinct.contains(&h) {
            self.distinct_overflow = true;
        }
    }
    pub fn want_sample(&self) -> bool {
        self.samples.len() < self.sample_cap
    }
    pub fn sample(&mut self, v: Value) {
        if self.samples.len() < self.sample_cap {
            self.samples.push(v);
        }
    }
    pub fn note(&mut self, s: String) {
        if self.notes.len() < 20 {
            self.notes.push(s);
        }
    }

    /// Report a violation. It is first offered to the open known findings of
    /// this property; only unmatched ones are kept as violations.
    pub fn violation(&mut self, clause: &str, sig: String, case: Value, expected: String, observed: String) {
        let v = Violation { clause: clause.to_string(), sig, case, expected, observed, count: 1 };
        if let Some(c) = self.classifier.as_ref() {
            for k in &self.kfs {
                if c(&k.classifier, &k.params, &v) {
                    let e = self.known.entry(k.id.clone()).or_insert_with(|| (0, v.to_json()));
                    e.0 += 1;
                    return;
                }
            }
        }
        if let Some(&i) = self.violation_index.get(&v.sig) {
            self.violations[i].count += 1;
            return;
        }
        if self.violations.len() >= 300 {
            self.dropped_violations += 1;
            return;
        }
        self.violation_index.insert(v.sig.clone(), self.violations.len());
        self.violations.push(v);
    }
    pub fn violation_count(&self) -> u64 {
        self.violations.iter().map(|v| v.count).sum::<u64>() + self.dropped_violations
    }

    /// Record the answer this process got to a question that other worker processes ask too.
    pub fn xobs(&mut self, question: String, answer: String, whereabouts: &str) {
        self.xobs.insert(question, (answer, whereabouts.to_string()));
    }

    pub fn to_json(&self) -> Value {
        let known: Map<String, Value> =
            self.known.iter().map(|(k, (n, ex))| (k.clone(), json!({"hits": n, "example": ex}))).collect();
        json!({
            "prop": self.prop,
            "counters": self.counters,
            "maxima": self.maxima,
            "samples": self.samples,
            "violations": self.violations.iter().map(|v| v.to_json()).collect::<Vec<_>>(),
            "dropped_violations": self.dropped_violations,
            "known": known,
            "notes": self.notes,
            "xobs": self.xobs.iter().map(|(k, (a, w))| json!([k, a, w])).collect::<Vec<_>>(),
            "cases": self.cases,
            "distinct_overflow": self.distinct_overflow,
        })
    }

    pub fn write_files(&self, path: &Path) {
        // a string handed out by the code under test may hold bytes that are not UTF-8 (that is itself reported where a
        // monitor looks at it); the result file must stay readable, so such bytes are replaced here
        let raw = serde_json::to_vec(&self.to_json()).unwrap();
        let clean = String::from_utf8_lossy(&raw).into_owned();
        std::fs::write(path, clean.as_bytes()).expect("write shard result");
        let mut bytes = Vec::with_capacity(self.distinct.len() * 8);
        for h in &self.distinct {
            bytes.extend_from_slice(&h.to_le_bytes());
        }
        std::fs::write(path.with_extension("d"), bytes).expect("write shard distinct");
    }

    /// Merge a shard result file into `self`.
    pub fn merge_files(&mut self, path: &Path) -> Result<(), String> {
        let s = std::fs::read(path).map_err(|e| format!("{}: {e}", path.display()))?;
        let v: Value = serde_json::from_slice(&s).map_err(|e| format!("{}: {e}", path.display()))?;
        if let Some(c) = v.get("counters").and_then(|c| c.as_object()) {
            for (k, n) in c {
                self.count(k, n.as_u64().unwrap_or(0));
            }
        }
        if let Some(c) = v.get("maxima").and_then(|c| c.as_object()) {
            for (k, n) in c {
                self.max(k, n.as_u64().unwrap_or(0));
            }
        }
        if let Some(a) = v.get("samples").and_then(|c| c.as_array()) {
            for s in a {
                if self.samples.len() < 12 {
                    self.samples.push(s.clone());
                }
            }
        }
        if let Some(a) = v.get("violations").and_then(|c| c.as_array()) {
            for x in a {
                if let Some(vi) = Violation::from_json(x) {
                    if let Some(&i) = self.violation_index.get(&vi.sig) {
                        self.violations[i].count += vi.count;
                    } else {
                        self.violation_index.insert(vi.sig.clone(), self.violations.len());
                        self.violations.push(vi);
                    }
                }
            }
        }
        self.dropped_violations += v.get("dropped_violations").and_then(|c| c.as_u64()).unwrap_or(0);
        if let Some(k) = v.get("known").and_then(|c| c.as_object()) {
            for (id, e) in k {
                let hits = e.get("hits").and_then(|h| h.as_u64()).unwrap_or(0);
                let ent = self.known.entry(id.clone()).or_insert_with(|| (0, e.get("example").cloned().unwrap_or(Value::Null)));
                ent.0 += hits;
            }
        }
        if let Some(a) = v.get("notes").and_then(|c| c.as_array()) {
            for n in a {
                if let Some(s) = n.as_str() {
                    self.note(s.to_string());
                }
            }
        }
        if let Some(a) = v.get("xobs").and_then(|c| c.as_array()) {
            for x in a {
                let (Some(k), Some(ans), Some(wh)) = (x.get(0).and_then(|s| s.as_str()), x.get(1).and_then(|s| s.as_str()), x.get(2).and_then(|s| s.as_str())) else { continue };
                match self.xobs.get(k) {
                    None => {
                        self.xobs.insert(k.to_string(), (ans.to_string(), wh.to_string()));
                    }
                    Some((a0, w0)) if a0 != ans => {
                        let (a0, w0) = (a0.clone(), w0.clone());
                        let label = k.split('|').next().unwrap_or(k).to_string();
                        self.count("cross_process_questions_answered_differently", 1);
                        self.violation("same-answer-in-every-process", format!("{label}:differs-between-processes"),
                                       json!({"cross_process": true, "question": k, "process_a": w0, "process_b": wh}),
                                       format!("{a0} (in the process that {w0})"), format!("{ans} (in the process that {wh})"));
                    }
                    Some(_) => self.count("cross_process_answers_agreeing", 1),
                }
            }
        }
        self.cases += v.get("cases").and_then(|c| c.as_u64()).unwrap_or(0);
        if v.get("distinct_overflow").and_then(|c| c.as_bool()).unwrap_or(false) {
            self.distinct_overflow = true;
        }
        if let Ok(bytes) = std::fs::read(path.with_extension("d")) {
            for ch in bytes.chunks_exact(8) {
                let h = u64::from_le_bytes(ch.try_into().unwrap());
                if self.distinct.len() < 40_000_000 {
                    self.distinct.insert(h);
                } else {
                    self.distinct_overflow = true;
                }
            }
        }
        Ok(())
    }
}

/// Convenience: a clause counter pair "<clause>.checked" / "<clause>.nonvacuous".
pub struct Clause;
impl Clause {
    #[inline]
    pub fn checked(out: &mut Out, clause: &str, nonvacuous: bool) {
        out.count(&format!("{clause}.checked"), 1);
        if nonvacuous {
            out.count(&format!("{clause}.nonvacuous"), 1);
        }
    }
}
