//! Orchestrator (forks worker processes of this same binary), worker entry, replay, evidence writer.

use crate::base::*;
use crate::out::*;
use crate::prop::{self, Prop};
use serde_json::{json, Value};
use std::os::unix::process::ExitStatusExt;
use std::path::{Path, PathBuf};
use std::process::{Child, Command, Stdio};
use std::time::{Duration, Instant};

pub const EXIT_OK: i32 = 0;
pub const EXIT_VIOLATION: i32 = 1;
pub const EXIT_INCONCLUSIVE: i32 = 2;
/// worker exit code: a call exceeded its CPU budget (the worker's own watchdog fired)
pub const EXIT_SLOW_CALL: i32 = 3;
pub const EXIT_BLOCKED_CALL: i32 = 5;
/// worker exit code: the harness itself panicked (oracle bug) -> inconclusive
pub const EXIT_HARNESS: i32 = 4;

fn jobs() -> usize {
    std::env::var("VERIF_JOBS")
        .ok()
        .and_then(|s| s.parse().ok())
        .unwrap_or_else(|| std::thread::available_parallelism().map(|n| n.get()).unwrap_or(8))
        .max(1)
}

fn scratch_base() -> PathBuf {
    let base = if Path::new("/dev/shm").is_dir() { PathBuf::from("/dev/shm") } else { PathBuf::from(format!("{VERIF}/target/run")) };
    base.join(format!("verif-{}", std::process::id()))
}

pub fn seed_from_env() -> u64 {
    std::env::var("VERIF_SEED").ok().and_then(|s| s.trim().parse::<i64>().ok()).map(|v| v as u64).unwrap_or(1)
}

pub fn parse_tier(s: &str) -> Option<Tier> {
    match s {
        "quick" => Some(Tier::Quick),
        "thorough" => Some(Tier::Thorough),
        _ => None,
    }
}

pub fn main_entry(args: Vec<String>) -> i32 {
    if args.len() >= 2 && args[1] == "--worker" {
        return worker_main(&args[2..]);
    }
    if args.len() >= 3 && args[1] == "--child" && args[2] == "save-trace" {
        return crate::systrace::child_main(&args[3..]);
    }
    if args.len() >= 3 && args[1] == "replay" {
        return replay_main(&args[2]);
    }
    if args.len() >= 3 {
        if let (Some(p), Some(t)) = (prop::by_id(&args[1]), parse_tier(&args[2])) {
            if let Ok(vt) = std::env::var("VERIF_TIER") {
                if !vt.is_empty() && parse_tier(&vt) != Some(t) {
                    eprintln!("VERIF_TIER={vt} disagrees with the tier argument {}", args[2]);
                    println!("INCONCLUSIVE property={} reason=tier-mismatch", args[1]);
                    return EXIT_INCONCLUSIVE;
                }
            }
            return orchestrate(p.as_ref(), t, seed_from_env());
        }
    }
    eprintln!("usage: vcheck <C01..C19> <quick|thorough> | vcheck replay <file>");
    64
}

// ---------------------------------------------------------------------------

fn worker_main(a: &[String]) -> i32 {
    // <prop> <tier> <seed> <shard> <nshards> <outpath> <scratch> [--journal <path>]
    if a.len() < 7 {
        eprintln!("bad worker args");
        return 64;
    }
    install_panic_hook();
    enter_working_directory();
    start_blocked_call_watchdog(EXIT_BLOCKED_CALL);
    let Some(p) = prop::by_id(&a[0]) else { return 64 };
    let p2 = prop::by_id(&a[0]).unwrap();
    let tier = parse_tier(&a[1]).unwrap();
    let env = Env {
        tier,
        seed: a[2].parse().unwrap(),
        shard: a[3].parse().unwrap(),
        nshards: a[4].parse().unwrap(),
        scratch: PathBuf::from(&a[6]),
        replaying: false,
    };
    let _ = std::fs::remove_dir_all(&env.scratch);
    std::fs::create_dir_all(&env.scratch).expect("scratch");
    let mut out = Out::new(p.id());
    out.set_known(load_known_findings(), Box::new(move |c, pa, v| p2.classify(c, pa, v)));
    if a.len() >= 9 && a[7] == "--journal" {
        out.set_journal(Path::new(&a[8]));
    }
    let r = guard_inner(|| p.run_shard(&env, &mut out));
    let _ = std::fs::remove_dir_all(&env.scratch);
    match r {
        Ok(()) => {
            out.write_files(Path::new(&a[5]));
            0
        }
        Err(pn) => {
            // A panic that escaped the monitors' own guards.
            println!("ESCAPED-PANIC loc={} msg={}", pn.loc, pn.msg.replace('\n', " "));
            if pn.loc.contains("/verif/") || pn.loc.starts_with("harness/") || pn.loc.starts_with("library/") {
                EXIT_HARNESS
            } else {
                // a riti (or dependency) panic reached an unguarded call: keep it as a violation
                out.violation(
                    "panic",
                    format!("escaped-panic@{}", pn.loc),
                    json!({"note": "panic escaped the monitor's guard", "shard": env.shard}),
                    "no panic".into(),
                    format!("panic at {}: {}", pn.loc, pn.msg),
                );
                out.write_files(Path::new(&a[5]));
                0
            }
        }
    }
}

// ---------------------------------------------------------------------------

struct Running {
    shard: usize,
    child: Child,
    started: Instant,
    outpath: PathBuf,
}

fn spawn_worker(
    p: &dyn Prop,
    tier: Tier,
    seed: u64,
    shard: usize,
    nshards: usize,
    base: &Path,
    journal: Option<&Path>,
) -> (Child, PathBuf) {
    let exe = std::env::current_exe().expect("current_exe");
    let outpath = base.join(format!("shard-{shard}.json"));
    let scratch = base.join(format!("w{shard}"));
    let mut cmd = Command::new(exe);
    cmd.arg("--worker")
        .arg(p.id())
        .arg(tier.name())
        .arg(seed.to_string())
        .arg(shard.to_string())
        .arg(nshards.to_string())
        .arg(&outpath)
        .arg(&scratch);
    if let Some(j) = journal {
        cmd.arg("--journal").arg(j);
    }
    // glibc malloc: keep freed memory instead of returning it to the kernel on every large free (regex compilation
    // allocates and frees megabytes per word; without this the workers spend most of their time in munmap/page faults)
    cmd.env("MALLOC_TRIM_THRESHOLD_", "2147483648").env("MALLOC_MMAP_THRESHOLD_", "1073741824").env("MALLOC_TOP_PAD_", "67108864");
    let tag = if journal.is_some() { "j" } else { "" };
    let so = std::fs::File::create(base.join(format!("shard-{shard}{tag}.out"))).expect("worker stdout file");
    let se = std::fs::File::create(base.join(format!("shard-{shard}{tag}.err"))).expect("worker stderr file");
    cmd.stdin(Stdio::null()).stdout(so).stderr(se);
    let child = cmd.spawn().expect("spawn worker");
    (child, outpath)
}

fn read_all(base: &Path, shard: usize, tag: &str) -> (String, String) {
    let rd = |ext: &str| {
        std::fs::read(base.join(format!("shard-{shard}{tag}.{ext}")))
            .map(|b| String::from_utf8_lossy(&b).into_owned())
            .unwrap_or_default()
    };
    (rd("out"), rd("err"))
}

enum ShardEnd {
    Ok,
    Died(String),
    Slow,
    Blocked,
    Harness(String),
    Watchdog,
}

fn orchestrate(p: &dyn Prop, tier: Tier, seed: u64) -> i32 {
    let t0 = Instant::now();
    let id = p.id();
    if let Err(e) = check_header() {
        println!("INCONCLUSIVE property={id} reason=header-mismatch: {e}");
        return EXIT_INCONCLUSIVE;
    }
    // (VERIF_OUT_DIR: tools/mutsweep.py runs scratch copies of this binary against mutated copies of riti, several at a time;
    // their evidence and witnesses must not land in /verif)
    let out_dir = std::env::var("VERIF_OUT_DIR").unwrap_or_else(|_| VERIF.to_string());
    let evidence_path = format!("{out_dir}/evidence/{id}.json");
    let _ = std::fs::create_dir_all(format!("{out_dir}/evidence"));
    let _ = std::fs::create_dir_all(format!("{out_dir}/replays"));
    let base = scratch_base();
    let _ = std::fs::remove_dir_all(&base);
    std::fs::create_dir_all(&base).expect("scratch base");

    let nshards = p.shards(tier).max(1);
    let maxjobs = jobs();
    let mut pending: Vec<usize> = (0..nshards).rev().collect();
    let mut running: Vec<Running> = vec![];
    let mut ends: Vec<(usize, ShardEnd, PathBuf)> = vec![];
    let watchdog = Duration::from_secs(p.watchdog_s(tier));

    while !pending.is_empty() || !running.is_empty() {
        while running.len() < maxjobs {
            let Some(s) = pending.pop() else { break };
            let (child, outpath) = spawn_worker(p, tier, seed, s, nshards, &base, None);
            running.push(Running { shard: s, child, started: Instant::now(), outpath });
        }
        let mut i = 0;
        let mut progressed = false;
        while i < running.len() {
            let r = &mut running[i];
            match r.child.try_wait() {
                Ok(Some(st)) => {
                    let (o, e) = read_all(&base, r.shard, "");
                    let end = if st.success() {
                        ShardEnd::Ok
                    } else if st.code() == Some(EXIT_SLOW_CALL) {
                        ShardEnd::Slow
                    } else if st.code() == Some(EXIT_BLOCKED_CALL) {
                        ShardEnd::Blocked
                    } else if st.code() == Some(EXIT_HARNESS) {
                        ShardEnd::Harness(format!("{} {}", o.trim(), e.lines().last().unwrap_or("")))
                    } else {
                        let why = match (st.signal(), st.code()) {
                            (Some(s), _) => format!("signal {s}"),
                            (_, Some(c)) => format!("exit code {c}"),
                            _ => "unknown".into(),
                        };
                        let tail: Vec<&str> = e.lines().rev().take(3).collect();
                        ShardEnd::Died(format!("{why}; stderr: {}", tail.into_iter().rev().collect::<Vec<_>>().join(" | ")))
                    };
                    let r = running.swap_remove(i);
                    ends.push((r.shard, end, r.outpath));
                    progressed = true;
                }
                Ok(None) => {
                    if r.started.elapsed() > watchdog {
                        let _ = r.child.kill();
                        let _ = r.child.wait();
                        let r = running.swap_remove(i);
                        ends.push((r.shard, ShardEnd::Watchdog, r.outpath));
                        progressed = true;
                    } else {
                        i += 1;
                    }
                }
                Err(_) => {
                    i += 1;
                }
            }
        }
        if !progressed {
            std::thread::sleep(Duration::from_millis(15));
        }
    }

    // Merge
    let mut merged = Out::new(id);
    let mut inconclusive: Vec<String> = vec![];
    ends.sort_by_key(|e| e.0);
    for (shard, end, outpath) in &ends {
        match end {
            ShardEnd::Ok => {
                if let Err(e) = merged.merge_files(outpath) {
                    inconclusive.push(format!("shard {shard}: unreadable result: {e}"));
                }
            }
            ShardEnd::Watchdog => inconclusive.push(format!("shard {shard}: wall-clock watchdog ({}s) fired", watchdog.as_secs())),
            ShardEnd::Harness(m) => inconclusive.push(format!("shard {shard}: harness error: {m}")),
            ShardEnd::Died(_) | ShardEnd::Slow | ShardEnd::Blocked => {
                // Re-run this shard alone in journal mode to find the case that kills it.
                let why = match end {
                    ShardEnd::Died(w) => w.clone(),
                    ShardEnd::Blocked => "a single call stayed blocked (asleep, not runnable, no CPU used) for 45 s".to_string(),
                    _ => "a single call exceeded its CPU budget".to_string(),
                };
                let journal = base.join(format!("journal-{shard}.jsonl"));
                let (mut child, _) = spawn_worker(p, tier, seed, *shard, nshards, &base, Some(&journal));
                let started = Instant::now();
                let st = loop {
                    match child.try_wait() {
                        Ok(Some(st)) => break Some(st),
                        Ok(None) if started.elapsed() > watchdog * 3 => {
                            let _ = child.kill();
                            let _ = child.wait();
                            break None;
                        }
                        _ => std::thread::sleep(Duration::from_millis(20)),
                    }
                };
                let last = std::fs::read_to_string(&journal).ok().and_then(|s| s.lines().last().map(|l| l.to_string()));
                match (st, last) {
                    (Some(st), Some(line)) if !st.success() => {
                        let case: Value = serde_json::from_str(&line).unwrap_or(Value::String(line));
                        let clause = if matches!(end, ShardEnd::Slow | ShardEnd::Blocked) { "time-budget" } else { "process-death" };
                        let k = if matches!(end, ShardEnd::Slow) { "slow".to_string() } else if matches!(end, ShardEnd::Blocked) { "blocked".to_string() } else { format!("died({})", why.split(';').next().unwrap_or("")) };
                        let sig = format!("{clause}:{k}:{:016x}", fnv(case.to_string().as_bytes()));
                        // offer to known findings through a throw-away Out carrying the classifier
                        let mut tmp = Out::new(id);
                        let p2 = prop::by_id(id).unwrap();
                        tmp.set_known(load_known_findings(), Box::new(move |c, pa, v| p2.classify(c, pa, v)));
                        tmp.violation(clause, sig, case, "the call returns normally".into(), why.clone());
                        let tmpfile = base.join(format!("death-{shard}.json"));
                        tmp.write_files(&tmpfile);
                        let _ = merged.merge_files(&tmpfile);
                        inconclusive.push(format!("shard {shard}: worker died ({why}); the rest of that shard was not explored"));
                    }
                    _ => inconclusive.push(format!("shard {shard}: worker died ({why}) but the journal re-run did not reproduce it")),
                }
            }
        }
    }

    if let Err(e) = p.extra(tier, seed, &mut merged) {
        inconclusive.push(format!("extra step: {e}"));
    }

    for (name, min) in p.minima(tier) {
        let got = merged.counters.get(name).copied().unwrap_or(0);
        if got < min {
            inconclusive.push(format!("counter {name} = {got} < required minimum {min} (too few non-vacuous observations)"));
        }
    }

    let wall = t0.elapsed().as_secs_f64();
    let nviol = merged.violation_count();
    let kfs = load_known_findings();

    // Evidence
    let evaluations = merged.counters.get("evaluations").copied().unwrap_or(merged.cases);
    let mut known_json = serde_json::Map::new();
    for (kid, (hits, ex)) in &merged.known {
        known_json.insert(kid.clone(), json!({"hits": hits, "example": ex}));
    }
    let mut samples = merged.samples.clone();
    if samples.is_empty() {
        samples.push(json!({"note": "no sample recorded"}));
    }
    let mut coverage = json!({
        "evaluations": evaluations,
        "distinct_nontrivial": merged.distinct.len(),
        "distinct_is_lower_bound": merged.distinct_overflow,
        "rule": p.rule(),
        "samples": samples,
        "exhaustive": p.exhaustive(tier) && inconclusive.is_empty(),
        "counters": merged.counters,
        "maxima": merged.maxima,
        "shards": nshards,
        "cases": merged.cases,
        "known_findings_hit": known_json,
        "inconclusive_reasons": inconclusive,
        "notes": merged.notes,
    });
    if nviol > 0 {
        coverage["violation_signatures"] = json!(merged.violations.iter().take(40).map(|v| json!({"sig": v.sig, "count": v.count})).collect::<Vec<_>>());
    }
    let evidence = json!({
        "property_id": id,
        "tier": tier.name(),
        "seed": seed as i64,
        "level": p.level(),
        "coverage": coverage,
        "assumptions": p.assumptions(),
        "wall_s": (wall * 100.0).round() / 100.0,
        "violations": nviol,
    });
    std::fs::write(&evidence_path, serde_json::to_string_pretty(&evidence).unwrap()).expect("write evidence");

    // Report
    println!("{id} {} seed={seed}: shards={nshards} cases={} evaluations={evaluations} distinct_nontrivial={} wall={wall:.1}s", tier.name(), merged.cases, merged.distinct.len());
    let mut line = String::new();
    for (k, v) in &merged.counters {
        // per-symbol call counts of C19 are in the evidence file; keep the console summary short
        if k == "evaluations" || k.contains(".riti_") {
            continue;
        }
        let item = format!("{k}={v}");
        if line.len() + item.len() > 150 {
            println!("  {line}");
            line.clear();
        }
        if !line.is_empty() {
            line.push(' ');
        }
        line.push_str(&item);
    }
    if !line.is_empty() {
        println!("  {line}");
    }
    if !merged.maxima.is_empty() {
        let m: Vec<String> = merged.maxima.iter().map(|(k, v)| format!("{k}={v}")).collect();
        println!("  maxima: {}", m.join(" "));
    }
    for n in &merged.notes {
        println!("  note: {n}");
    }
    for (kid, (hits, _)) in &merged.known {
        let what = kfs.iter().find(|k| &k.id == kid).map(|k| k.what.clone()).unwrap_or_default();
        println!("KNOWN-FINDING: property={id} {what} ({kid}; {hits} observations)");
    }
    let _ = std::fs::remove_dir_all(&base);

    if nviol > 0 {
        for v in merged.violations.iter().take(25) {
            let h = fnv(v.sig.as_bytes());
            let path = format!("{out_dir}/replays/{id}-{:08x}.json", (h & 0xffff_ffff) as u32);
            let doc = json!({"property": id, "clause": v.clause, "signature": v.sig, "case": v.case,
                             "expected": v.expected, "observed": v.observed, "seed": seed as i64, "tier": tier.name(), "occurrences": v.count});
            let _ = std::fs::write(&path, serde_json::to_string_pretty(&doc).unwrap());
            println!("VIOLATION property={id} replay={path}");
            println!("  clause: {}   signature: {}   occurrences: {}", v.clause, v.sig, v.count);
            println!("  expected: {}", truncate(&v.expected, 400));
            println!("  observed: {}", truncate(&v.observed, 400));
        }
        if merged.violations.len() > 25 || merged.dropped_violations > 0 {
            println!("  ... {} distinct signatures in total, {} further occurrences not kept", merged.violations.len(), merged.dropped_violations);
        }
        for r in &inconclusive {
            println!("  also: {r}");
        }
        return EXIT_VIOLATION;
    }
    if !inconclusive.is_empty() {
        for r in &inconclusive {
            println!("INCONCLUSIVE property={id} reason={r}");
        }
        return EXIT_INCONCLUSIVE;
    }
    println!("{id}: held on everything explored (evidence/{id}.json)");
    EXIT_OK
}

fn truncate(s: &str, n: usize) -> String {
    if s.chars().count() <= n {
        s.to_string()
    } else {
        let t: String = s.chars().take(n).collect();
        format!("{t}…")
    }
}

// ---------------------------------------------------------------------------

fn replay_main(path: &str) -> i32 {
    install_panic_hook();
    let path = &std::fs::canonicalize(path).map(|p| p.to_string_lossy().into_owned()).unwrap_or_else(|_| path.to_string());
    enter_working_directory();
    let Ok(s) = std::fs::read_to_string(path) else {
        eprintln!("cannot read {path}");
        return 64;
    };
    let Ok(doc) = serde_json::from_str::<Value>(&s) else {
        eprintln!("{path}: not JSON");
        return 64;
    };
    let id = doc.get("property").and_then(|p| p.as_str()).unwrap_or("");
    let _ = BLOCKED_EXIT_LINE.set(format!("VIOLATION property={id} replay={path}"));
    start_blocked_call_watchdog(EXIT_VIOLATION);
    let Some(p) = prop::by_id(id) else {
        eprintln!("{path}: unknown property {id:?}");
        return 64;
    };
    let p2 = prop::by_id(id).unwrap();
    let base = scratch_base();
    let _ = std::fs::remove_dir_all(&base);
    std::fs::create_dir_all(&base).expect("scratch");
    let tier = doc.get("tier").and_then(|t| t.as_str()).and_then(parse_tier).unwrap_or(Tier::Quick);
    let env = Env {
        tier,
        seed: doc.get("seed").and_then(|s| s.as_i64()).unwrap_or(1) as u64,
        shard: 0,
        nshards: 1,
        scratch: base.join("w0"),
        replaying: true,
    };
    std::fs::create_dir_all(&env.scratch).expect("scratch");
    let mut out = Out::new(id);
    out.set_known(load_known_findings(), Box::new(move |c, pa, v| p2.classify(c, pa, v)));
    let case = doc.get("case").cloned().unwrap_or(Value::Null);
    if case.get("cross_process").and_then(|c| c.as_bool()).unwrap_or(false) {
        // two worker processes answered the same question differently: one process cannot show that, so the replay is
        // the whole check again (same tier and seed), which asks the question in every worker process
        let _ = std::fs::remove_dir_all(&base);
        println!("replay of {path}: a cross-process witness; running the whole {id} check again at the recorded tier and seed");
        return orchestrate(p.as_ref(), tier, env.seed);
    }
    let r = guard_inner(|| p.replay(&env, &case, &mut out));
    let _ = std::fs::remove_dir_all(&base);
    if let Err(pn) = r {
        println!("replay: escaped panic at {}: {}", pn.loc, pn.msg);
        println!("VIOLATION property={id} replay={path}");
        return EXIT_VIOLATION;
    }
    for (kid, (hits, _)) in &out.known {
        println!("KNOWN-FINDING: property={id} ({kid}; {hits} observations on replay)");
    }
    if out.violation_count() > 0 {
        for v in &out.violations {
            println!("VIOLATION property={id} replay={path}");
            println!("  clause: {}   signature: {}", v.clause, v.sig);
            println!("  expected: {}", truncate(&v.expected, 600));
            println!("  observed: {}", truncate(&v.observed, 600));
        }
        return EXIT_VIOLATION;
    }
    println!("replay of {path}: no violation on the current tree");
    EXIT_OK
}
