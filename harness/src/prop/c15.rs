//! C15 — fixed-layout suggestions are prefix completions of what was typed.

use crate::base::*;
use crate::fixedkit::ZWNJ;
use crate::oracle::layout::LayoutOracle;
use crate::oracle::phon::{split, PhonOracle};
use crate::out::*;
use crate::prop::Prop;
use serde_json::{json, Value};
use std::collections::{HashMap, HashSet};

pub struct C15;

pub type FKey = (u16, u8, char);

/// Keys that compose `text` with all helpers off (None when a character has no single-code-point key).
pub fn keys_for(rev: &HashMap<char, FKey>, text: &str) -> Option<Vec<FKey>> {
    text.chars().map(|c| rev.get(&c).copied()).collect()
}

pub fn specs() -> Vec<CfgSpec> {
    let f = |o: u16| CfgSpec::new(Lay::Probhat, O_FSUGG | O_NUMPAD | o);
    vec![
        f(0), f(O_TKAR | O_PSUGG), f(O_ENG), f(O_SQ | O_PSUGG), f(O_ANSI), f(O_TKAR | O_ENG | O_SQ), f(O_TKAR | O_ENG | O_SQ | O_ANSI), f(O_ENG | O_SQ),
        f(O_KARORDER | O_PSUGG), f(O_KARORDER | O_ENG | O_TKAR), f(O_VOWEL | O_CHANDRA | O_REPH | O_ENG),
        // number pad off: the number-pad keys are ignored, also in the record of raw keys
        CfgSpec::new(Lay::Probhat, O_FSUGG | O_ENG), CfgSpec::new(Lay::Probhat, O_FSUGG | O_ENG | O_SQ | O_TKAR),
    ]
}

/// The same text in typewriter order (old vowel-sign order): a left-standing sign goes in front of its consonant cluster,
/// the two-part signs are typed as ে in front and া / ৌ behind.
pub fn typewriter(text: &str) -> String {
    use crate::fixedkit::{is_consonant, HASANTA};
    let cs: Vec<char> = text.chars().collect();
    let mut out = String::new();
    let mut i = 0;
    while i < cs.len() {
        if !is_consonant(cs[i]) {
            out.push(cs[i]);
            i += 1;
            continue;
        }
        let start = i;
        i += 1;
        while i + 1 < cs.len() && cs[i] == HASANTA && is_consonant(cs[i + 1]) {
            i += 2;
        }
        let cluster: String = cs[start..i].iter().collect();
        match cs.get(i) {
            Some(&k) if matches!(k, 'ি' | 'ে' | 'ৈ') => {
                out.push(k);
                out.push_str(&cluster);
                i += 1;
            }
            Some('ো') => {
                out.push('ে');
                out.push_str(&cluster);
                out.push('া');
                i += 1;
            }
            Some('ৌ') => {
                out.push('ে');
                out.push_str(&cluster);
                out.push('ৌ');
                i += 1;
            }
            _ => out.push_str(&cluster),
        }
    }
    out
}

/// punctuation ignored when comparing with the dictionary (ASCII punctuation, danda, ZWNJ)
pub fn clean(s: &str) -> String {
    s.chars().filter(|&c| !(c.is_ascii_punctuation() || c == '।' || c == ZWNJ)).collect()
}
fn no_zwnj(s: &str) -> String {
    s.chars().filter(|&c| c != ZWNJ).collect()
}

#[derive(Default)]
pub struct Tally {
    pub events: u64,
    pub lists: u64,
    pub untypeable: u64,
    pub nokey: u64,
    pub inner: u64,
    pub after_slip: u64,
    pub marks_only: u64,
    pub pad_ignored: u64,
    pub c: HashMap<&'static str, (u64, u64)>,
}
impl Tally {
    pub fn clause(&mut self, name: &'static str, nonvacuous: bool) {
        let e = self.c.entry(name).or_insert((0, 0));
        e.0 += 1;
        if nonvacuous {
            e.1 += 1;
        }
    }
    pub fn merge_from(&mut self, o: &Tally) {
        self.events += o.events;
        self.lists += o.lists;
        self.untypeable += o.untypeable;
        self.marks_only += o.marks_only;
        for (k, (a, b)) in &o.c {
            let e = self.c.entry(k).or_insert((0, 0));
            e.0 += a;
            e.1 += b;
        }
    }
    pub fn flush(&self, out: &mut Out) {
        out.count("evaluations", self.events);
        out.count("lists_judged", self.lists);
        out.count("words_without_single_code_point_keys_skipped", self.nokey);
        out.count("texts_with_punctuation_inside_the_word", self.inner);
        out.count("compositions_of_marks_only", self.marks_only);
        out.count("words_with_an_ignored_number_pad_key_inside", self.pad_ignored);
        out.count("words_typed_after_an_aborted_composition_of_waiting_signs", self.after_slip);
        out.count("texts_composed_differently_than_meant", self.untypeable);
        for (k, (ch, nv)) in &self.c {
            out.count(&format!("{k}.checked"), *ch);
            out.count(&format!("{k}.nonvacuous"), *nv);
        }
    }
}

fn case_json(spec: &CfgSpec, keys: &[FKey], upto: usize) -> Value {
    let evs: Vec<Ev> = keys[..upto].iter().map(|&(k, m, _)| Ev::Key(k, m, 0)).collect();
    json!({"cfg": spec.to_json(), "events": evs_to_json(&evs)})
}

/// Judge the list returned after the last of `keys[..upto]` (no backspace used so far).
#[allow(clippy::too_many_arguments)]
pub fn judge_list(o: &PhonOracle, spec: &CfgSpec, keys: &[FKey], upto: usize, aux: &str, list: &[String], out: &mut Out, t: &mut Tally) {
    t.lists += 1;
    // (a key the layout ignores - a number-pad key while the number pad is off - carries the character NUL here: it is no
    // part of the raw key text)
    let raw: String = keys[..upto].iter().map(|k| k.2).filter(|c| *c != '\0').collect();
    let (lead, word, trail) = split(aux, true);
    let (pre, post) = if spec.has(O_SQ) && !word.is_empty() { (curl_open(&lead), curl_close(&trail)) } else { (lead.clone(), trail.clone()) };
    let tag = |clause: &str| format!("c15:{clause}:{}:wrap={}{}", spec.short(), if lead.is_empty() { "" } else { "L" }, if trail.is_empty() { "" } else { "T" });
    let case = || case_json(spec, keys, upto);
    let fail = |out: &mut Out, clause: &str, exp: String| out.violation(clause, tag(clause), case(), exp, format!("composed {aux:?}, raw keys {raw:?}, list {list:?}"));
    out.distinct(fnv_str(&[aux, &spec.opts.to_string()]));
    if list.is_empty() {
        fail(out, "first-is-typed-text", "a non-empty list".into());
        return;
    }
    // first candidate = composed text (curled)
    t.clause("first-is-typed-text", true);
    let first = format!("{pre}{word}{post}");
    if list[0] != first {
        fail(out, "first-is-typed-text", format!("first candidate {first:?}"));
    }
    // at most nine, no repeats
    t.clause("at-most-nine", list.len() >= 9);
    if list.len() > 9 {
        fail(out, "at-most-nine", "at most nine candidates".into());
    }
    let hs: HashSet<&String> = list.iter().collect();
    t.clause("no-repeat", list.len() > 1);
    if hs.len() != list.len() {
        fail(out, "no-repeat", "no candidate text twice".into());
    }
    // emoji (not in ANSI mode)
    let ansi = spec.has(O_ANSI);
    let emoticon = if ansi { None } else { o.emoticons.get(raw.as_str()).copied() };
    let name_emojis: Vec<String> = if ansi || emoticon.is_some() { vec![] } else { o.bn_emojis.get(word.as_str()).map(|l| l.iter().map(|e| format!("{pre}{e}{post}")).collect()).unwrap_or_default() };
    let english_expected = spec.english() && raw != aux;
    let wc = clean(&word);
    let mut prevd = 0usize;
    let mut ncompl = 0;
    let mut dists: HashSet<usize> = HashSet::new();
    for (idx, x) in list.iter().enumerate() {
        if idx == 0 {
            continue;
        }
        if emoticon == Some(x.as_str()) || name_emojis.contains(x) {
            continue;
        }
        if english_expected && idx == list.len() - 1 && *x == raw {
            continue;
        }
        // a completion
        ncompl += 1;
        let Some(m) = x.strip_prefix(pre.as_str()).and_then(|r| r.strip_suffix(post.as_str())) else {
            fail(out, "completion-is-dictionary-prefix-match", format!("candidate {x:?} wrapped like the typed word ({pre:?} … {post:?})"));
            continue;
        };
        let mc = no_zwnj(m);
        if !o.words.contains(&mc) && !o.words.contains(m) {
            fail(out, "completion-is-dictionary-prefix-match", format!("candidate {x:?} (middle {mc:?}) is a word of dictionary.json"));
        } else if !clean(&mc).starts_with(&wc) || wc.is_empty() {
            fail(out, "completion-is-dictionary-prefix-match", format!("candidate {x:?} begins with the typed word {wc:?} (punctuation and non-joiners ignored)"));
        }
        let d = lev(&word, m);
        dists.insert(d);
        if d < prevd {
            fail(out, "distance-order", format!("non-emoji candidates in non-decreasing edit distance from {word:?}; {x:?} has distance {d} after {prevd}"));
        }
        prevd = d;
    }
    t.clause("completion-is-dictionary-prefix-match", ncompl > 0);
    t.clause("distance-order", dists.len() >= 2);
    if spec.english() {
        t.clause("english-last", english_expected);
        if english_expected && list.last().map(|s| s.as_str()) != Some(raw.as_str()) {
            fail(out, "english-last", format!("last candidate is the raw key text {raw:?}"));
        }
        if !english_expected && list.len() > 1 && list.last().map(|s| s.as_str()) == Some(raw.as_str()) && list[0] != raw {
            fail(out, "english-last", "no separate raw-text candidate when it equals the composed text".into());
        }
    }
    if out.want_sample() && t.lists % 3001 == 13 {
        out.sample(json!({"options": spec.short(), "raw_keys": raw, "composed": aux, "candidates": list}));
    }
}

/// Type `keys` on an idle context, judging the list after every key; ends with finish.
/// `mirror` is a context with the same options but suggestions off: what it shows is the composed text.
/// An earlier composition that was given up (on both contexts); leaves them idle.
fn run_slip(sess: &Sess, mirror: &Sess, slip: &[Ev]) {
    for x in [sess, mirror] {
        for e in slip {
            let _ = match e {
                Ev::Key(k, m, s) => x.key(*k, *m, *s).map(|_| ()),
                Ev::Bs => x.bs(false).map(|_| ()),
                _ => Ok(()),
            };
        }
        if x.ongoing().unwrap_or(false) {
            let _ = x.bs(true);
        }
    }
}

pub fn type_and_judge(o: &PhonOracle, sess: &Sess, mirror: &Sess, keys: &[FKey], target: &str, out: &mut Out, t: &mut Tally) {
    let spec = sess.spec;
    let mut composed = String::new();
    for (i, &(k, m, _)) in keys.iter().enumerate() {
        t.events += 2;
        composed = match mirror.key(k, m, 0) {
            Ok(s) if s.is_lonely() => s.get_lonely_suggestion().to_string(),
            Ok(_) => {
                out.violation("first-is-typed-text", format!("c15:list-with-suggestions-off:{}", spec.short()), case_json(&spec, keys, i + 1), "a single string".into(), "a list".into());
                break;
            }
            Err(p) => {
                out.violation("first-is-typed-text", format!("c15:panic@{}", p.loc), case_json(&mirror.spec, keys, i + 1), "a single string".into(), format!("panic at {}: {}", p.loc, p.msg));
                break;
            }
        };
        match sess.key(k, m, 0) {
            Ok(s) => {
                if composed.is_empty() {
                    // nothing composed yet (a left-standing sign waiting for its consonant): nothing to offer
                    t.clause("nothing-composed-first-is-empty", true);
                    let r = Rs::of(&s);
                    let ok = match &r {
                        Rs::Single(x) => x.is_empty(),
                        Rs::Full { aux, list, .. } => aux.is_empty() && list.first().map_or(true, |x| x.is_empty()),
                    };
                    if !ok {
                        out.violation("first-is-typed-text", format!("c15:candidates-for-empty-composition:{}", spec.short()), case_json(&spec, keys, i + 1), "nothing, or a first candidate equal to the (empty) composed text".into(), format!("{r:?}"));
                    }
                    continue;
                }
                if s.is_lonely() {
                    out.violation("first-is-typed-text", format!("c15:single-with-suggestions-on:{}", spec.short()), case_json(&spec, keys, i + 1), "a list".into(), "a single string".into());
                    break;
                }
                let aux = s.get_auxiliary_text().to_string();
                if aux != composed {
                    out.violation("first-is-typed-text", format!("c15:auxiliary-differs-from-composed:{}", spec.short()), case_json(&spec, keys, i + 1), format!("auxiliary text {composed:?} (what the same keys compose with suggestions off)"), format!("{aux:?}, list {:?}", s.get_suggestions()));
                }
                judge_list(o, &spec, keys, i + 1, &composed, s.get_suggestions(), out, t);
            }
            Err(p) => {
                out.violation("first-is-typed-text", format!("c15:panic@{}", p.loc), case_json(&spec, keys, i + 1), "a list".into(), format!("panic at {}: {}", p.loc, p.msg));
                break;
            }
        }
    }
    let _ = sess.finish();
    let _ = mirror.finish();
    // was the text composed as meant (ZWNJ from traditional joining aside)? informational: the lists were judged against
    // what was composed either way
    if no_zwnj(&composed) != no_zwnj(target) {
        t.untypeable += 1;
    }
}

pub const FWRAPS: [(&str, &str); 11] = [("\"", "\""), ("(", ":"), ("'", "।"), ("(", ")"), ("", "।"), ("\"'", "'\""), ("", ":"), ("(\"", "\")"), ("", "\","), ("", "'।"), ("[-'", "'?]")];

impl Prop for C15 {
    fn id(&self) -> &'static str {
        "C15"
    }
    fn rule(&self) -> String {
        "every prefix of dictionary words typed through the Probhat layout via a reverse key map computed from the layout file (every 12th word in quick plus every word that occurs more than once in the data, every word in thorough), \
         plus the half-word wrapped in 11 punctuation/quote wrappings (quotes outermost and not outermost), every third typewriter-order word typed after an aborted composition (two or three waiting signs, one backspace), plus every fourth word with a mark inside it (every ASCII punctuation character, danda, joiners and currency/maths signs the layout can type, in rotation; the full stop from the number pad), each in 1 (quick, rotating) / 4 (thorough) of 11 contexts over subsets of \
         {traditional joining, smart quotes, English, ANSI} plus old vowel-sign order (keys in typewriter order) and the auto-vowel/chandra/reph helpers; every context has a twin with suggestions off that receives the same keys and defines the composed text; \
         the list returned after every key is judged. distinct_nontrivial = distinct (composed text, options) pairs whose list was judged."
            .into()
    }
    fn assumptions(&self) -> Vec<String> {
        vec![
            "dictionary.json read independently; distance = harness Levenshtein over code points between the typed word and the candidate's middle part as shown".into(),
            "the composed text is what a second context with the same options but suggestions off shows for the same keys (C04/C12/C14 decide whether that text is right)".into(),
            "words with a character that has no single-code-point key are skipped (counted)".into(),
            "not claimed: that every completion in the dictionary is offered".into(),
        ]
    }
    fn shards(&self, tier: Tier) -> usize {
        tier.pick(16, 64)
    }
    fn minima(&self, _tier: Tier) -> Vec<(&'static str, u64)> {
        vec![
            ("lists_judged", 20_000), ("completion-is-dictionary-prefix-match.nonvacuous", 10_000), ("distance-order.nonvacuous", 5_000),
            ("at-most-nine.nonvacuous", 1_000), ("english-last.nonvacuous", 2_000), ("no-repeat.nonvacuous", 10_000), ("texts_with_punctuation_inside_the_word", 200), ("nothing-composed-first-is-empty.nonvacuous", 50),
        ]
    }
    fn run_shard(&self, env: &Env, out: &mut Out) {
        let (Ok(o), Ok(lo)) = (PhonOracle::new(), LayoutOracle::load(Lay::Probhat)) else {
            out.note("oracle load failed".into());
            return;
        };
        let rev = lo.reverse();
        // the number-pad decimal key (all contexts have the number-pad option on)
        let dot: Option<FKey> = keys().iter().find(|k| k.name == "VC_KP_DECIMAL").filter(|k| lo.value(k.code, 0, true) == Some(".")).map(|k| (k.code, 0u8, '.'));
        // every number-pad key whose layout value is the ASCII mark the key is labelled with (. + - * /)
        let pad_marks: Vec<(char, FKey)> = keys().iter().filter(|k| k.numpad).filter_map(|k| {
            let ch = k.ch?;
            (ch.is_ascii_punctuation() && lo.value(k.code, 0, true) == Some(ch.to_string().as_str())).then_some((ch, (k.code, 0u8, ch)))
        }).collect();
        out.max("number_pad_marks_typed_inside_words", pad_marks.len() as u64);
        let mut marks: Vec<(char, FKey)> = rev.iter().filter(|(c, _)| c.is_ascii_punctuation() || matches!(**c, '।' | '॥' | '\u{200C}' | '\u{200D}' | '৳' | '÷' | '×')).map(|(c, k)| (*c, *k)).collect();
        marks.sort();
        out.max("marks_typed_inside_words", marks.len() as u64);
        let root = env.root("c15");
        fresh_root(&root);
        let sessions: Vec<(Sess, Sess)> = match specs().into_iter().map(|s| Ok((Sess::new(s, &root)?, Sess::new(CfgSpec::new(s.lay, s.opts & !O_FSUGG), &root)?))).collect::<Result<_, Panic>>() {
            Ok(v) => v,
            Err(p) => {
                out.violation("setup", format!("c15:setup-panic@{}", p.loc), json!({}), "context creation".into(), p.msg);
                return;
            }
        };
        let mut t = Tally::default();
        // compositions without any word: every mark the layout can type alone, every ordered pair of marks, and some marks
        // inside brackets / quotes (the first candidate is the composed text, nothing repeats, the raw keys come last when
        // English is on and they differ from what they composed)
        {
            let mut t0 = Tally::default();
            let mut texts: Vec<Vec<(char, FKey)>> = vec![];
            for &(c, k) in &marks {
                texts.push(vec![(c, k)]);
                for &(c2, k2) in &marks {
                    texts.push(vec![(c, k), (c2, k2)]);
                }
            }
            let find = |ch: char| marks.iter().find(|(c, _)| *c == ch).copied();
            if let (Some(lp), Some(rp), Some(q)) = (find('('), find(')'), find('"')) {
                for &(c, k) in &marks {
                    texts.push(vec![lp, (c, k), rp]);
                    texts.push(vec![q, (c, k), q]);
                }
            }
            for (i, tx) in texts.iter().enumerate() {
                if !env.mine(i) {
                    continue;
                }
                let keys: Vec<FKey> = tx.iter().map(|(_, k)| *k).collect();
                let target: String = tx.iter().map(|(c, _)| *c).collect();
                let (sess, mirror) = &sessions[i % sessions.len()];
                out.begin_case(|| case_json(&sess.spec, &keys, keys.len()));
                t0.marks_only += 1;
                type_and_judge(&o, sess, mirror, &keys, &target, out, &mut t0);
            }
            t.merge_from(&t0);
        }
        let mut words: Vec<&String> = o.tables.values().flatten().collect();
        words.sort();
        words.dedup();
        // words that occur more than once in the data (within a table or across tables) are always included:
        // they are what the duplicate suppression exists for
        let mut seen: std::collections::HashMap<&String, usize> = std::collections::HashMap::new();
        for w in o.tables.values().flatten() {
            *seen.entry(w).or_insert(0) += 1;
        }
        let repeated: HashSet<&String> = seen.iter().filter(|(_, n)| **n > 1).map(|(w, _)| *w).collect();
        out.max("words_occurring_more_than_once_in_the_data", repeated.len() as u64);
        let step = env.tier.pick(12, 1);
        let per = env.tier.pick(1, 4);
        let mut n = 0usize;
        for (wi, w) in words.iter().enumerate() {
            if wi % step != (env.seed as usize) % step && !repeated.contains(*w) {
                continue;
            }
            let mine = env.mine(n);
            n += 1;
            if !mine {
                continue;
            }
            let (Some(keys), Some(tkeys)) = (keys_for(&rev, w), keys_for(&rev, &typewriter(w))) else {
                t.nokey += 1;
                continue;
            };
            for j in 0..per {
                let (sess, mirror) = &sessions[(n / env.nshards + j * 3) % sessions.len()];
                let keys = if sess.spec.has(O_KARORDER) { &tkeys } else { &keys };
                // every third word typed in typewriter order follows an aborted composition: two or three left-standing
                // signs (each replaces the one that waits), then one backspace, which ends that composition
                let slip: Vec<Ev> = if sess.spec.has(O_KARORDER) && n % 3 == 0 {
                    match (rev.get(&'ি'), rev.get(&'ে')) {
                        (Some(a), Some(b)) => {
                            let mut v = vec![Ev::Key(a.0, a.1, 0), Ev::Key(b.0, b.1, 0)];
                            if n % 2 == 0 {
                                v.push(Ev::Key(a.0, a.1, 0));
                            }
                            v.push(Ev::Bs);
                            v
                        }
                        _ => vec![],
                    }
                } else {
                    vec![]
                };
                out.begin_case(|| {
                    let mut c = case_json(&sess.spec, keys, keys.len());
                    if !slip.is_empty() {
                        c["aborted_composition_before"] = evs_to_json(&slip);
                    }
                    c
                });
                if !slip.is_empty() {
                    t.after_slip += 1;
                    run_slip(sess, mirror, &slip);
                }
                type_and_judge(&o, sess, mirror, keys, w, out, &mut t);
            }
            // punctuation inside the word (the full stop comes from the number pad)
            if n % 4 == 0 {
                let cs: Vec<char> = w.chars().collect();
                if cs.len() >= 2 {
                    let cut = 1 + (n / 4) % (cs.len() - 1);
                    // every mark the layout can type (ASCII punctuation, danda, ZWNJ ...), the number-pad full stop every fourth time
                    // (rotations by the word's index among the words of this run, which differs from shard to shard, with periods
                    // 8 (context), 3 (number pad or main block) and the number of marks: every combination comes up)
                    let u = wi / step;
                    let (p, pk) = if u % 3 == 0 && !pad_marks.is_empty() { let (c, k) = pad_marks[(u / 3) % pad_marks.len()]; (c, Some(k)) } else if u % 3 == 0 { ('.', dot) } else { let (c, k) = marks[(u / 3) % marks.len()]; (c, Some(k)) };
                    let head: String = cs[..cut].iter().collect();
                    let tail: String = cs[cut..cs.len().min(cut + 2)].iter().collect();
                    if let (Some(a), Some(pk), Some(b)) = (keys_for(&rev, &head), pk, keys_for(&rev, &tail)) {
                        // every second number-pad mark goes to a context with the number pad *off*: the key is ignored, the
                        // text is head + tail, and the raw key text must not contain it either
                        let pad_ignored = u % 3 == 0 && !pad_marks.is_empty() && (u / 3) % 2 == 1;
                        let mut keys = a;
                        keys.push(if pad_ignored { (pk.0, pk.1, '\0') } else { pk });
                        keys.extend(b);
                        if pad_ignored {
                            let (sess, mirror) = &sessions[11 + (u / 6) % 2];
                            out.begin_case(|| case_json(&sess.spec, &keys, keys.len()));
                            t.inner += 1;
                            t.pad_ignored += 1;
                            type_and_judge(&o, sess, mirror, &keys, &format!("{head}{tail}"), out, &mut t);
                            continue;
                        }
                        let (sess, mirror) = &sessions[(wi / step) % 8];
                        out.begin_case(|| case_json(&sess.spec, &keys, keys.len()));
                        t.inner += 1;
                        type_and_judge(&o, sess, mirror, &keys, &format!("{head}{p}{tail}"), out, &mut t);
                    }
                }
            }
            // wrapped half-word
            let cs: Vec<char> = w.chars().collect();
            let half: String = cs[..(cs.len() + 1) / 2].iter().collect();
            let (l, r) = FWRAPS[n % FWRAPS.len()];
            let text = format!("{l}{half}{r}");
            if let Some(keys) = keys_for(&rev, &text) {
                let (sess, mirror) = &sessions[(n / env.nshards + 5) % 8];
                out.begin_case(|| case_json(&sess.spec, &keys, keys.len()));
                type_and_judge(&o, sess, mirror, &keys, &text, out, &mut t);
            }
        }
        t.flush(out);
    }
    fn replay(&self, env: &Env, case: &Value, out: &mut Out) {
        let (Ok(o), Ok(lo)) = (PhonOracle::new(), LayoutOracle::load(Lay::Probhat)) else { return };
        let Some(spec) = case.get("cfg").and_then(CfgSpec::from_json) else { return };
        let Some(evs) = case.get("events").and_then(evs_from_json) else { return };
        let root = env.root("c15");
        fresh_root(&root);
        let (Ok(sess), Ok(mirror)) = (Sess::new(spec, &root), Sess::new(CfgSpec::new(spec.lay, spec.opts & !O_FSUGG), &root)) else { return };
        let mut keys: Vec<FKey> = vec![];
        let mut target = String::new();
        for e in &evs {
            if let Ev::Key(k, m, _) = e {
                let val = lo.value(*k, *m, spec.has(O_NUMPAD)).unwrap_or("");
                // a key without a value under this configuration is ignored, also in the raw key text
                keys.push((*k, *m, if val.is_empty() { '\0' } else { char_for_key(*k).unwrap_or('?') }));
                target.push_str(val);
            }
        }
        let mut t = Tally::default();
        if let Some(slip) = case.get("aborted_composition_before").and_then(evs_from_json) {
            run_slip(&sess, &mirror, &slip);
        }
        type_and_judge(&o, &sess, &mirror, &keys, &target, out, &mut t);
        t.flush(out);
    }
}
