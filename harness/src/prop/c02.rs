//! C02 — every returned suggestion is self-consistent and fully retrievable.
//! Invariant monitor on every suggestion returned by protocol-selection histories.

use crate::base::*;
use crate::explore::*;
use crate::oracle::layout::LayoutOracle;
use crate::out::*;
use crate::prop::Prop;
use serde_json::{json, Value};

pub struct C02;

#[derive(Default)]
struct Tally {
    calls: u64,
    lists: u64,
    singles: u64,
    readouts: u64,
    aux_phonetic: u64,
    aux_fixed: u64,
    sel_nonzero: u64,
    sel_high: u64,
    sel_after_punct: u64,
    shrunk_lists: u64,
    ansi_readouts: u64,
    histories: u64,
}
fn flush(t: &Tally, out: &mut Out) {
    out.count("evaluations", t.calls);
    out.count("histories", t.histories);
    out.count("lists_checked", t.lists);
    out.count("single_strings_checked", t.singles);
    out.count("index_readouts", t.readouts);
    out.count("index_readouts_with_ansi", t.ansi_readouts);
    out.count("aux_compared_phonetic", t.aux_phonetic);
    out.count("aux_compared_fixed_with_mirror", t.aux_fixed);
    out.count("lists_with_nonzero_preselection", t.sel_nonzero);
    out.count("lists_with_preselection_at_9_or_beyond", t.sel_high);
    out.count("lists_after_selection_preserving_punctuation_key", t.sel_after_punct);
    out.count("lists_shorter_than_previous_list", t.shrunk_lists);
}

const PRESERVING: &str = ".?!,:;-_)}]'\"";

struct Pair {
    ex: Exec,
    mirror: Option<Sess>,
}

fn mk_pair(spec: CfgSpec, root: &std::path::Path) -> Result<Pair, Panic> {
    let ex = Exec::new(spec, root)?;
    let mirror = if spec.lay.is_fixed() && spec.has(O_FSUGG) { Some(Sess::new(spec.without(O_FSUGG), root)?) } else { None };
    Ok(Pair { ex, mirror })
}

/// Apply one (concrete, in-contract) event to the pair and check the invariants on what comes back.
fn step(p: &mut Pair, e: &Ev, prev_len: &mut usize, spec0: &CfgSpec, files: &UserFiles, done: &[Ev], out: &mut Out, t: &mut Tally) -> bool {
    let case = || trace_json(spec0, files, done);
    t.calls += 1;
    let passed_sel = if let Ev::Key(_, _, s) = e { Some(*s as usize) } else { None };
    let st = p.ex.apply(e);
    // mirror
    let mut composed: Option<String> = None;
    if let Some(m) = &p.mirror {
        let r = match e {
            Ev::Key(k, md, _) => m.key(*k, *md, 0).map(|s| Some(s.get_lonely_suggestion().to_string())),
            Ev::Bs => m.bs(false).map(|s| Some(s.get_lonely_suggestion().to_string())),
            Ev::CtrlBs => m.bs(true).map(|s| Some(s.get_lonely_suggestion().to_string())),
            Ev::Commit(_) | Ev::Finish => m.finish().map(|_| None),
            _ => Ok(None),
        };
        match r {
            Ok(c) => composed = c,
            Err(_) => p.mirror = None,
        }
    }
    let method = if p.ex.sess.spec.lay.is_fixed() { "fixed" } else { "phonetic" };
    let sg = match (&st.result, &st.sugg) {
        (Err(pn), _) => {
            // a panic while producing the suggestion the property talks about
            out.violation("suggestion-is-produced", format!("c02:panic@{}:{method}", pn.loc), case(), "a suggestion is returned".into(), format!("panic at {}: {}", pn.loc, pn.msg));
            return false;
        }
        (Ok(_), Some(s)) => s,
        (Ok(_), None) => return true,
    };
    let ansi = p.ex.sess.spec.has(O_ANSI);
    if sg.is_lonely() {
        t.singles += 1;
        t.readouts += 1;
        if ansi {
            t.ansi_readouts += 1;
        }
        if let Err(pn) = guard(|| sg.get_pre_edit_text(0)) {
            let cand = sg.get_lonely_suggestion().to_string();
            out.violation("every-index-readable", format!("c02:single-preedit-panic@{}:{}", pn.loc, cps(&cand)), case(), format!("pre-edit text of the single string {cand:?} is readable"), format!("panic at {}: {}", pn.loc, pn.msg));
        }
        *prev_len = usize::from(!sg.is_empty());
        return true;
    }
    t.lists += 1;
    let len = sg.len();
    let sel = sg.previously_selected_index();
    out.distinct(fnv_str(&[method, &p.ex.sess.spec.opts.to_string(), sg.get_auxiliary_text(), &len.to_string(), &sel.to_string()]));
    if len == 0 {
        out.violation("list-not-empty", format!("c02:empty-list:{method}"), case(), "at least one candidate".into(), "a list with no candidate".into());
        *prev_len = 0;
        return true;
    }
    if sel > 0 {
        t.sel_nonzero += 1;
    }
    if sel >= 9 {
        t.sel_high += 1;
    }
    if len < *prev_len {
        t.shrunk_lists += 1;
    }
    let keych = if let Ev::Key(k, _, _) = e { char_for_key(*k) } else { None };
    if keych.map_or(false, |c| PRESERVING.contains(c)) && method == "phonetic" {
        t.sel_after_punct += 1;
    }
    // the caller's byte was valid for the list shown before (protocol), so the returned index must be in range
    let caller_valid = passed_sel.map_or(true, |s| s < (*prev_len).max(1));
    if sel >= len && caller_valid {
        let mut c = case();
        c["at"] = json!({"key_char": keych.map(|c| c.to_string()), "selection_byte_passed": passed_sel, "previous_list_length": *prev_len, "returned_length": len, "returned_index": sel});
        out.violation("selected-index-in-range", format!("c02:sel-out-of-range:{method}:key={}", keych.map(|c| c.to_string()).unwrap_or_else(|| "-".into())), c,
                      format!("previously_selected_index() < {len}"), format!("{sel}"));
    }
    // auxiliary text = the composition
    let aux = sg.get_auxiliary_text().to_string();
    if method == "phonetic" {
        t.aux_phonetic += 1;
        if aux != p.ex.shadow {
            out.violation("aux-is-composition", "c02:aux:phonetic".into(), case(), format!("{:?} (the raw typed text)", p.ex.shadow), format!("{aux:?}"));
        }
    } else if let Some(c) = &composed {
        t.aux_fixed += 1;
        if aux != *c {
            out.violation("aux-is-composition", "c02:aux:fixed".into(), case(), format!("{c:?} (the composed text, from a suggestions-off mirror context)"), format!("{aux:?}"));
        }
    }
    // every index readable, as candidate and as pre-edit text
    for i in 0..len {
        t.readouts += 1;
        if ansi {
            t.ansi_readouts += 1;
        }
        let cand = match guard(|| sg.get_suggestions()[i].clone()) {
            Ok(c) => c,
            Err(pn) => {
                out.violation("every-index-readable", format!("c02:candidate-panic@{}", pn.loc), case(), format!("candidate {i} of {len} is readable"), format!("panic at {}", pn.loc));
                continue;
            }
        };
        if let Err(pn) = guard(|| sg.get_pre_edit_text(i)) {
            out.violation("every-index-readable", format!("c02:preedit-panic@{}:{}", pn.loc, cps(&cand)), case(), format!("pre-edit text of candidate {i} ({cand:?}) is readable"), format!("panic at {}: {}", pn.loc, pn.msg));
        }
    }
    if out.want_sample() && t.lists % 4001 == 77 {
        out.sample(json!({"history": trace_json(spec0, files, done), "returned": Rs::of(sg).to_json()}));
    }
    *prev_len = len;
    true
}

/// rare code points of a candidate (for signatures)
fn cps(s: &str) -> String {
    let mut v: Vec<u32> = s.chars().map(|c| c as u32).filter(|&c| c == 0x09C4 || (0x09E0..=0x09E3).contains(&c) || (0x09F0..=0x09FF).contains(&c) || c == 0x09BC || c == 0x09BD || c == 0x098C).collect();
    v.sort();
    v.dedup();
    v.iter().map(|c| format!("U+{c:04X}")).collect::<Vec<_>>().join("+")
}

fn run_history(p: &mut Pair, files: &UserFiles, evs: &[Ev], out: &mut Out, t: &mut Tally) {
    t.histories += 1;
    let spec0 = p.ex.sess.spec;
    let mut done: Vec<Ev> = vec![];
    let mut prev_len = 0usize;
    for e in evs {
        if p.ex.dead {
            break;
        }
        let e = match e {
            Ev::Commit(i) if *i >= usize::MAX - 2 => match &p.ex.screen {
                Some(rs) if rs.commit_len() > 0 => {
                    let h = (p.ex.highlight as usize).min(rs.commit_len() - 1);
                    // MAX = highlighted, MAX-1 = the next index, MAX-2 = the last index of the list
                    Ev::Commit(if *i == usize::MAX { h } else if *i == usize::MAX - 1 { (h + 1) % rs.commit_len() } else { rs.commit_len() - 1 })
                }
                _ => continue,
            },
            // protocol: the highlighted index, occasionally moved to another valid index (0xFE)
            Ev::Key(k, m, 0xFF) => Ev::Key(*k, *m, p.ex.highlight),
            Ev::Key(k, m, 0xFE) => {
                let n = p.ex.screen.as_ref().map(|r| r.commit_len()).unwrap_or(0);
                Ev::Key(*k, *m, if n > 0 { ((p.ex.highlight as usize + 1 + done.len()) % n).min(255) as u8 } else { 0 })
            }
            other => other.clone(),
        };
        if !p.ex.in_contract(&e) || matches!(e, Ev::Update(_)) {
            continue;
        }
        if matches!(e, Ev::Commit(_) | Ev::Finish | Ev::CtrlBs | Ev::NewCtx) {
            prev_len = 0;
        }
        done.push(e.clone());
        if matches!(e, Ev::NewCtx) {
            if let Some(m) = p.mirror.as_mut() {
                let _ = m.restart();
            }
        }
        if !step(p, &e, &mut prev_len, &spec0, files, &done, out, t) {
            break;
        }
        if matches!(e, Ev::Commit(_) | Ev::Finish | Ev::CtrlBs | Ev::NewCtx) {
            prev_len = 0;
        }
    }
    // leave both idle
    if !p.ex.dead {
        let _ = p.ex.sess.finish();
        p.ex.screen = None;
        p.ex.shadow.clear();
        p.ex.highlight = 0;
    }
    if let Some(m) = &p.mirror {
        let _ = m.finish();
    }
}

fn random_spec(rng: &mut Rng) -> CfgSpec {
    let lay = Lay::ALL[rng.below(3)];
    let mut opts = (rng.next() & O_ALL as u64) as u16;
    opts |= if lay.is_fixed() { O_FSUGG } else { O_PSUGG };
    if rng.chance(1, 8) {
        opts &= !(O_FSUGG | O_PSUGG);
    }
    CfgSpec::new(lay, opts)
}

const SEED_STORE: &str = r#"{"coffee":"কফী","as":"আশ","ami":"আমই","smile":"😄","tumi":"তুমই"}"#;

impl Prop for C02 {
    fn id(&self) -> &'static str {
        "C02"
    }
    fn rule(&self) -> String {
        "protocol-selection histories (every key carries the index the front-end highlights, i.e. the last returned pre-selection, occasionally moved to another valid index): \
         (a) targeted: 40 words with long lists / learned selections / emoji typed, then every one of the 13 selection-preserving punctuation keys and `:` with every valid selection byte, then more keys; \
         (a2) 30 words with long lists: the last candidate is committed (learned), then the word and six suffix/punctuation forms are re-typed so that the pre-selected index is far down the list; (b) exhaustive histories of length <= 3 (quick) / 4 (thorough) over a 12-event alphabet per method; (c) random histories of <= 48 events over all keys, three layouts, random options (suggestions mostly on), commits and restarts, \
         a learned-selection store present and growing. Every returned suggestion is checked: length, index, auxiliary text (phonetic: shadow string of the typed characters; fixed: a mirror context with suggestions off fed the same events), \
         and every index is read as candidate and as pre-edit text under catch_unwind. distinct_nontrivial = distinct (method, options, auxiliary text, length, index) tuples checked."
            .into()
    }
    fn assumptions(&self) -> Vec<String> {
        vec![
            "the selection byte passed with each key is valid for the previously returned list (the property's precondition); out-of-protocol bytes are C01's business".into(),
            "the composed text in fixed mode is what a context with identical options except fixed_suggestion=false returns for the same events".into(),
        ]
    }
    fn shards(&self, tier: Tier) -> usize {
        tier.pick(16, 64)
    }
    fn minima(&self, _tier: Tier) -> Vec<(&'static str, u64)> {
        vec![
            ("lists_checked", 50_000), ("single_strings_checked", 2_000), ("index_readouts", 200_000), ("index_readouts_with_ansi", 20_000), ("aux_compared_phonetic", 20_000),
            ("aux_compared_fixed_with_mirror", 10_000), ("lists_with_nonzero_preselection", 1_000), ("lists_with_preselection_at_9_or_beyond", 20), ("lists_after_selection_preserving_punctuation_key", 2_000), ("lists_shorter_than_previous_list", 1_000),
        ]
    }
    fn classify(&self, classifier: &str, params: &Value, v: &Violation) -> bool {
        match classifier {
            // the punctuation-key branch echoes the caller's byte; ':' re-splits the word ("coffee" -> "coffee:") and shrinks the list
            "punctuation-key-echoes-selection" => {
                let keys: Vec<&str> = params.get("keys").and_then(|k| k.as_array()).map(|a| a.iter().filter_map(|s| s.as_str()).collect()).unwrap_or_default();
                let Some(at) = v.case.get("at") else { return false };
                let key = at.get("key_char").and_then(|k| k.as_str()).unwrap_or("");
                v.clause == "selected-index-in-range"
                    && v.sig.starts_with("c02:sel-out-of-range:phonetic:")
                    && keys.contains(&key)
                    && at.get("returned_index") == at.get("selection_byte_passed")
                    && at.get("returned_length").and_then(|x| x.as_u64()) < at.get("previous_list_length").and_then(|x| x.as_u64())
            }
            "encoder-panic-on-U+09C4" => v.clause == "every-index-readable" && v.sig.contains("preedit-panic@poriborton-") && v.sig.contains("U+09C4"),
            _ => false,
        }
    }
    fn run_shard(&self, env: &Env, out: &mut Out) {
        let mut t = Tally::default();
        let mut rng = env.rng("c02");
        let root = env.root("c02");
        let files0 = UserFiles { selections: Some(SEED_STORE.to_string()), autocorrect: None };
        files0.install(&root);
        let thorough = env.tier == Tier::Thorough;
        let snapshot = |root: &std::path::Path| UserFiles { selections: std::fs::read_to_string(selection_file(root)).ok(), autocorrect: None };

        // ---- (a) targeted: word, punctuation key with every valid selection, continuation
        let words = ["coffee", "a", "as", "ami", "smile", "cool", "tumi", "kkhet", "o", "atm", "amar", "onno", "sesh", "hello", "e", "i", "bangla", "k", "ok", "no",
                     "(a", "\"as", "amra", "apni", "kori", "bolo", "din", "rat", "ma", "baba", "desh", "nodi", "pani", "boi", "gan", "kotha", "mon", "valo", "khub", "ache"];
        let specs_a = [O_PSUGG, O_PSUGG | O_ENG, O_PSUGG | O_SQ | O_ENG, O_PSUGG | O_ANSI];
        let mut item = 0usize;
        for (wi, w) in words.iter().enumerate() {
            for (si, o) in specs_a.iter().enumerate() {
                let mine = env.mine(item);
                item += 1;
                if !mine || (!thorough && (wi + si) % 2 == 1) {
                    continue;
                }
                let spec = CfgSpec::new(Lay::Phonetic, *o);
                let Ok(mut p) = mk_pair(spec, &root) else { continue };
                let files = snapshot(&root);
                for pc in PRESERVING.chars() {
                    // learn the list length first
                    let n = match p.ex.sess.type_text_protocol(w) {
                        Ok(Some(s)) if !s.is_lonely() => s.len(),
                        _ => 1,
                    };
                    let _ = p.ex.sess.finish();
                    for sel in 0..n.min(12) {
                        let mut evs: Vec<Ev> = w.chars().map(|c| Ev::Key(kc(c), 0, 0xFF)).collect();
                        evs.push(Ev::Key(kc(pc), 0, sel as u8));
                        evs.push(Ev::Key(kc('a'), 0, 0xFF));
                        evs.push(Ev::Bs);
                        evs.push(Ev::Bs);
                        evs.push(Ev::Key(kc(':'), 0, 0xFF));
                        evs.push(Ev::Finish);
                        out.begin_case(|| trace_json(&spec, &files, &evs));
                        // the selection byte `sel` is valid for the list shown for `w` by construction
                        run_history(&mut p, &files, &evs, out, &mut t);
                    }
                }
            }
        }

        // ---- (a2) learned choices far down long lists: commit the last candidate of words with long lists, then re-type the
        // word and its suffix forms (the pre-selected index is then high), with protocol selection bytes throughout
        let longs = ["a", "o", "e", "i", "ko", "ka", "ki", "chot", "bol", "kor", "mon", "din", "kal", "ban", "par", "sa", "ta", "na", "cool", "kkhet", "bis", "rog", "des", "bon", "char", "kot", "sob", "jon", "pot", "jol"];
        for (wi, w) in longs.iter().enumerate() {
            let mine = env.mine(item);
            item += 1;
            if !mine {
                continue;
            }
            let spec = CfgSpec::new(Lay::Phonetic, if wi % 2 == 0 { O_PSUGG } else { O_PSUGG | O_ENG | O_SQ });
            let Ok(mut p) = mk_pair(spec, &root) else { continue };
            let files = snapshot(&root);
            let mut evs: Vec<Ev> = vec![];
            for round in 0..2 {
                for c in w.chars() {
                    evs.push(Ev::Key(kc(c), 0, 0xFF));
                }
                // a commit far from the highlighted index (placeholder resolved at run time: another valid index)
                evs.push(if round == 0 { Ev::Commit(usize::MAX - 2) } else { Ev::Commit(usize::MAX) });
            }
            for sfx in ["i", "e", "er", "ta", "gulo", "."] {
                for c in w.chars().chain(sfx.chars()) {
                    evs.push(Ev::Key(kc(c), 0, 0xFF));
                }
                evs.push(Ev::Key(kc(','), 0, 0xFF));
                evs.push(Ev::Finish);
            }
            out.begin_case(|| trace_json(&spec, &files, &evs));
            run_history(&mut p, &files, &evs, out, &mut t);
        }

        // ---- (b) exhaustive short histories
        let maxlen = env.tier.pick(3, 4);
        for lay in Lay::ALL {
            let lo = if lay.is_fixed() { LayoutOracle::load(lay).ok() } else { None };
            let mut alpha: Vec<Ev> = vec![Ev::Bs, Ev::CtrlBs, Ev::Commit(usize::MAX), Ev::Commit(usize::MAX - 1), Ev::Finish];
            if let Some(lo) = &lo {
                for val in ["ক", "ি", "\u{09CD}", "া", ":", "\"", "\u{09B0}\u{09CD}"] {
                    if let Some((k, m)) = lo.key_for_value(val) {
                        alpha.push(Ev::Key(k, m, 0xFF));
                    }
                }
            } else {
                for c in ['a', 's', 'i', ':', ')', '`', '"'] {
                    alpha.push(Ev::Key(kc(c), 0, 0xFF));
                }
            }
            let n = alpha.len();
            let s = if lay.is_fixed() { O_FSUGG } else { O_PSUGG };
            for spec in [CfgSpec::new(lay, s), CfgSpec::new(lay, O_ALL), CfgSpec::new(lay, s | O_ENG | O_SQ | O_KARORDER | O_VOWEL)] {
                for first in 0..n {
                    let mine = env.mine(item);
                    item += 1;
                    if !mine {
                        continue;
                    }
                    let Ok(mut p) = mk_pair(spec, &root) else { continue };
                    let files = snapshot(&root);
                    let mut idx = vec![0usize; maxlen];
                    idx[0] = first;
                    loop {
                        let evs: Vec<Ev> = idx.iter().map(|&i| alpha[i].clone()).collect();
                        out.begin_case(|| trace_json(&spec, &files, &evs));
                        run_history(&mut p, &files, &evs, out, &mut t);
                        if p.ex.dead {
                            match mk_pair(spec, &root) {
                                Ok(np) => p = np,
                                Err(_) => break,
                            }
                        }
                        if !crate::fixedkit::next_seq(&mut idx, n) {
                            break;
                        }
                    }
                }
            }
        }

        // ---- (c) random histories
        let nhist = env.tier.pick(150, 600);
        let allkeys: Vec<u16> = keys().iter().map(|k| k.code).collect();
        let common: Vec<char> = "aeioukgtdnrsmhlbcjyzONTDS:;.,`'\"()\\-^1$".chars().collect();
        for _ in 0..nhist {
            let spec = random_spec(&mut rng);
            let files = snapshot(&root);
            let Ok(mut p) = mk_pair(spec, &root) else {
                files0.install(&root);
                continue;
            };
            for _w in 0..4 {
                let len = rng.range(4, 48);
                let mut evs: Vec<Ev> = vec![];
                for _ in 0..len {
                    let r = rng.below(100);
                    evs.push(if r < 70 {
                        let k = if rng.chance(4, 5) { kc(*rng.pick(&common)) } else { *rng.pick(&allkeys) };
                        let m = if rng.chance(3, 4) { 0 } else { *rng.pick(&[1u8, 2, 3]) };
                        Ev::Key(k, m, if rng.chance(1, 5) { 0xFE } else { 0xFF })
                    } else if r < 82 {
                        Ev::Bs
                    } else if r < 85 {
                        Ev::CtrlBs
                    } else if r < 91 {
                        Ev::Commit(usize::MAX)
                    } else if r < 95 {
                        Ev::Commit(usize::MAX - 1)
                    } else if r < 98 {
                        Ev::Finish
                    } else {
                        Ev::NewCtx
                    });
                }
                out.begin_case(|| trace_json(&spec, &files, &evs));
                run_history(&mut p, &files, &evs, out, &mut t);
                if p.ex.dead {
                    break;
                }
            }
        }
        flush(&t, out);
    }
    fn replay(&self, env: &Env, case: &Value, out: &mut Out) {
        let Some(spec) = case.get("cfg").and_then(CfgSpec::from_json) else { return };
        let files = case.get("user_files").map(UserFiles::from_json).unwrap_or_default();
        let root = env.root("c02");
        files.install(&root);
        let Some(evs) = case.get("events").and_then(evs_from_json) else { return };
        let Ok(mut p) = mk_pair(spec, &root) else { return };
        let mut t = Tally::default();
        run_history(&mut p, &files, &evs, out, &mut t);
        flush(&t, out);
    }
}
