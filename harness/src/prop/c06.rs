//! C06 — ending a word erases every trace of it; the session flag tells the truth.

use crate::base::*;
use crate::explore::*;
use crate::out::*;
use crate::prop::Prop;
use serde_json::{json, Value};

pub struct C06;

#[derive(Default)]
struct Tally {
    calls: u64,
    histories: u64,
    term: [u64; 5],
    flag_after_term: u64,
    idle_bs: u64,
    nonempty_implies_flag: u64,
    bs_chains: u64,
    continuations: u64,
    continuation_events: u64,
    true_fresh: u64,
    confirmed_with_true_fresh: u64,
    pending_at_term: u64,
    typed_desync_at_term: u64,
}
const TERMS: [&str; 5] = ["commit", "finish", "ctrl_backspace", "backspace_to_empty", "commit_other_index"];

fn flush(t: &Tally, out: &mut Out) {
    out.count("evaluations", t.calls);
    out.count("histories", t.histories);
    for (i, n) in t.term.iter().enumerate() {
        out.count(&format!("terminator.{}", TERMS[i]), *n);
    }
    out.count("flag_checked_after_terminator", t.flag_after_term);
    out.count("idle_backspace_checked", t.idle_bs);
    out.count("nonempty_preedit_implies_flag_checked", t.nonempty_implies_flag);
    out.count("backspace_chains_to_idle", t.bs_chains);
    out.count("continuations_compared", t.continuations);
    out.count("continuation_events_compared", t.continuation_events);
    out.count("continuations_against_truly_new_context", t.true_fresh);
    out.count("mismatches_rechecked_with_truly_new_context", t.confirmed_with_true_fresh);
    out.count("terminated_while_sign_pending", t.pending_at_term);
    out.count("terminated_with_raw_keys_out_of_step", t.typed_desync_at_term);
}

fn random_spec(rng: &mut Rng) -> CfgSpec {
    let lay = Lay::ALL[rng.below(3)];
    let mut opts = (rng.next() & O_ALL as u64) as u16;
    if rng.chance(3, 4) {
        opts |= if lay.is_fixed() { O_FSUGG } else { O_PSUGG };
    }
    if rng.chance(1, 2) {
        opts |= O_ENG;
        opts &= !O_ANSI;
    }
    CfgSpec::new(lay, opts)
}

fn other_layout(l: Lay) -> Lay {
    match l {
        Lay::Phonetic => Lay::Probhat,
        _ => Lay::Phonetic,
    }
}

fn render(rs: &Option<Rs>) -> String {
    match rs {
        None => "-".into(),
        Some(r) => r.to_json().to_string(),
    }
}

fn random_key(rng: &mut Rng, allkeys: &[u16], common: &[char]) -> Ev {
    let k = if rng.chance(4, 5) { kc(*rng.pick(common)) } else { *rng.pick(allkeys) };
    let m = if rng.chance(3, 4) { 0 } else { 2 };
    Ev::Key(k, m, 0xFF)
}

struct Hist {
    spec: CfgSpec,
    prefix: Vec<Ev>,
    term: usize,
    cont: Vec<Ev>,
}

fn hist_json(h: &Hist, files: &UserFiles) -> Value {
    json!({"cfg": h.spec.to_json(), "user_files": files.to_json(), "prefix": evs_to_json(&h.prefix), "terminator": TERMS[h.term], "continuation": evs_to_json(&h.cont)})
}

fn concrete(ex: &Exec, e: &Ev) -> Option<Ev> {
    Some(match e {
        Ev::Commit(i) if *i >= usize::MAX - 1 => match &ex.screen {
            Some(rs) if rs.commit_len() > 0 => {
                let h = (ex.highlight as usize).min(rs.commit_len() - 1);
                // usize::MAX = the highlighted index; usize::MAX - 1 = another valid index (a learning commit)
                Ev::Commit(if *i == usize::MAX { h } else { (h + 1) % rs.commit_len() })
            }
            _ => return None,
        },
        Ev::Key(k, m, 0xFF) => Ev::Key(*k, *m, ex.highlight),
        o => o.clone(),
    })
}

/// Run prefix + terminator on `used`, judging the flag clauses. Returns false if the history died or did not terminate.
fn run_prefix(used: &mut Exec, h: &Hist, files: &UserFiles, out: &mut Out, t: &mut Tally) -> bool {
    let case = || hist_json(h, files);
    let method = if h.spec.lay.is_fixed() { "fixed" } else { "phonetic" };
    for e in &h.prefix {
        let Some(e) = concrete(used, e) else { continue };
        if !used.in_contract(&e) {
            continue;
        }
        let idle_before = matches!(e, Ev::Bs) && !used.sess.ongoing().unwrap_or(true);
        t.calls += 1;
        let st = used.apply(&e);
        let Ok(rs) = &st.result else { return false };
        if let Some(rs) = rs {
            // whenever an event returns non-empty pre-edit text the context reports an ongoing session
            let pre = match rs {
                Rs::Single(s) => s.clone(),
                Rs::Full { list, sel, .. } => list.get(*sel).or(list.first()).cloned().unwrap_or_default(),
            };
            t.nonempty_implies_flag += 1;
            if !pre.is_empty() && st.ongoing_after == Some(false) {
                out.violation("nonempty-preedit-implies-session", format!("c06:preedit-without-session:{method}"), case(), format!("ongoing_input_session() = true while the pre-edit text is {pre:?}"), "false".into());
            }
            if idle_before {
                t.idle_bs += 1;
                if !rs.is_empty() || st.ongoing_after == Some(true) {
                    out.violation("idle-backspace-does-nothing", format!("c06:idle-backspace:{method}"), case(), "an empty suggestion and no session".into(), format!("{} ongoing={:?}", render(&Some(rs.clone())), st.ongoing_after));
                }
            }
        }
    }
    // state at the moment of the terminator (coverage accounting through the hook)
    let stt = used.sess.state();
    if stt.get("pending_kar").and_then(|p| p.as_str()).map_or(false, |p| !p.is_empty()) {
        t.pending_at_term += 1;
    }
    if let (Some(b), Some(ty)) = (stt.get("buffer").and_then(|b| b.as_str()), stt.get("typed").and_then(|b| b.as_str())) {
        if b.chars().count() != ty.chars().count() && h.spec.has(O_FSUGG) {
            t.typed_desync_at_term += 1;
        }
    }
    let ongoing_before = used.sess.ongoing().unwrap_or(false);
    // terminator
    t.term[h.term] += 1;
    match h.term {
        0 | 4 => {
            let placeholder = if h.term == 0 { usize::MAX } else { usize::MAX - 1 };
            let Some(e) = concrete(used, &Ev::Commit(placeholder)) else {
                // nothing on screen: fall back to finish
                t.calls += 1;
                return used.apply(&Ev::Finish).result.is_ok() && flag_false(used, h, files, "finish", out, t);
            };
            t.calls += 1;
            if used.apply(&e).result.is_err() {
                return false;
            }
            // the candidate window is gone after a commit: nothing on screen, nothing highlighted
            used.screen = None;
            used.highlight = 0;
        }
        1 => {
            t.calls += 1;
            if used.apply(&Ev::Finish).result.is_err() {
                return false;
            }
        }
        2 => {
            if !ongoing_before {
                return false; // ctrl-backspace on an empty composition is not a terminator
            }
            t.calls += 1;
            let st = used.apply(&Ev::CtrlBs);
            let Ok(Some(rs)) = &st.result else { return false };
            if !rs.is_empty() {
                out.violation("terminator-ends-session", format!("c06:ctrl-backspace-returns-text:{method}"), case(), "an empty suggestion".into(), render(&Some(rs.clone())));
            }
        }
        _ => {
            // plain backspaces until one returns an empty suggestion; bounded by the code points shown + 2
            let shown = match &used.screen {
                Some(Rs::Single(s)) => s.chars().count(),
                Some(Rs::Full { aux, .. }) => if h.spec.lay.is_fixed() { aux.chars().count() } else { used.shadow.chars().count() },
                None => 0,
            };
            let bound = shown.max(used.shadow.chars().count()) + 2;
            t.bs_chains += 1;
            let mut n = 0;
            loop {
                n += 1;
                t.calls += 1;
                let st = used.apply(&Ev::Bs);
                let Ok(Some(rs)) = &st.result else { return false };
                if rs.is_empty() {
                    break;
                }
                if n > bound {
                    out.violation("backspaces-reach-idle", format!("c06:backspace-chain:{method}"), case(), format!("an empty suggestion after at most {bound} backspaces"), format!("still {} after {n}", render(&Some(rs.clone()))));
                    let _ = used.apply(&Ev::Finish);
                    return false;
                }
            }
        }
    }
    flag_false(used, h, files, TERMS[h.term], out, t)
}

fn flag_false(used: &Exec, h: &Hist, files: &UserFiles, term: &str, out: &mut Out, t: &mut Tally) -> bool {
    t.flag_after_term += 1;
    match used.sess.ongoing() {
        Ok(false) => true,
        Ok(true) => {
            let method = if h.spec.lay.is_fixed() { "fixed" } else { "phonetic" };
            let st = used.sess.state();
            let mut c = hist_json(h, files);
            c["state_after_terminator"] = st.clone();
            out.violation("terminator-ends-session", format!("c06:flag-after-{term}:{method}:sugg={}", h.spec.lists()), c, "ongoing_input_session() = false".into(), format!("true (state {st})"));
            false
        }
        Err(_) => false,
    }
}

/// Feed the continuation to both contexts, comparing every rendering and flag. Returns the first difference.
fn compare_cont(used: &mut Exec, reference: &mut Exec, cont: &[Ev], t: &mut Tally) -> Option<(usize, String, String)> {
    for (i, e) in cont.iter().enumerate() {
        let (Some(a), Some(b)) = (concrete(used, e), concrete(reference, e)) else { continue };
        if !used.in_contract(&a) || !reference.in_contract(&b) {
            if used.in_contract(&a) != reference.in_contract(&b) {
                return Some((i, format!("in contract: {}", used.in_contract(&a)), format!("in contract: {}", reference.in_contract(&b))));
            }
            continue;
        }
        t.calls += 2;
        t.continuation_events += 1;
        let (sa, sb) = (used.apply(&a), reference.apply(&b));
        let ra = match &sa.result {
            Ok(r) => format!("{} ongoing={:?}", render(r), sa.ongoing_after),
            Err(p) => format!("panic at {}", p.loc),
        };
        let rb = match &sb.result {
            Ok(r) => format!("{} ongoing={:?}", render(r), sb.ongoing_after),
            Err(p) => format!("panic at {}", p.loc),
        };
        if ra != rb || a != b {
            return Some((i, ra, rb));
        }
        if sa.result.is_err() {
            break;
        }
    }
    None
}

fn reset_reference(r: &mut Exec, spec: CfgSpec) -> bool {
    // a layout change replaces the method object: brand-new method state, user files re-read
    let _ = r.apply(&Ev::Finish);
    let away = CfgSpec::new(other_layout(spec.lay), 0);
    r.apply(&Ev::Update(away)).result.is_ok() && r.apply(&Ev::Update(spec)).result.is_ok()
}

fn snapshot(root: &std::path::Path) -> UserFiles {
    UserFiles { selections: std::fs::read_to_string(selection_file(root)).ok(), autocorrect: std::fs::read_to_string(autocorrect_file(root)).ok() }
}

const SEED_STORE: &str = r#"{"onno":"অন্য","ami":"আমই","as":"আশ"}"#;

/// One complete check of a history with a truly new reference context (used for confirmation, samples and replay).
fn check_with_true_fresh(h: &Hist, files: &UserFiles, root: &std::path::Path, out: &mut Out, t: &mut Tally) {
    files.install(root);
    let Ok(mut used) = Exec::new(h.spec, root) else { return };
    if !run_prefix(&mut used, h, files, out, t) {
        return;
    }
    let Ok(mut fresh) = Exec::new(h.spec, root) else { return };
    t.true_fresh += 1;
    t.continuations += 1;
    if let Some((i, a, b)) = compare_cont(&mut used, &mut fresh, &h.cont, t) {
        let method = if h.spec.lay.is_fixed() { "fixed" } else { "phonetic" };
        let what = leak_kind(&a, &b);
        out.violation("behaves-like-new-context", format!("c06:continuation-differs:{method}:after-{}:{what}", TERMS[h.term]), hist_json(h, files),
                      format!("continuation event {i} renders as in a newly created context: {b}"), a);
    }
}

/// Replay the whole life of a used context (concrete events) on a new context over the files it started from,
/// then compare the continuation with a truly new context.
fn confirm_with_life(h: &Hist, files_at_creation: &UserFiles, life: &[Ev], root: &std::path::Path, out: &mut Out, t: &mut Tally) {
    files_at_creation.install(root);
    let Ok(mut used) = Exec::new(h.spec, root) else { return };
    for e in life {
        if used.dead {
            return;
        }
        t.calls += 1;
        used.apply(e);
    }
    let Ok(mut fresh) = Exec::new(h.spec, root) else { return };
    t.true_fresh += 1;
    if let Some((i, a, b)) = compare_cont(&mut used, &mut fresh, &h.cont, t) {
        let method = if h.spec.lay.is_fixed() { "fixed" } else { "phonetic" };
        let what = leak_kind(&a, &b);
        let case = json!({"cfg": h.spec.to_json(), "user_files": files_at_creation.to_json(), "life_of_the_used_context": evs_to_json(life),
                          "terminator": TERMS[h.term], "continuation": evs_to_json(&h.cont)});
        out.violation("behaves-like-new-context", format!("c06:continuation-differs:{method}:after-{}:{what}", TERMS[h.term]), case,
                      format!("continuation event {i} renders as in a newly created context: {b}"), format!("{a} (after {} earlier events in this context)", life.len()));
    }
}

/// coarse description of how the two renderings differ (for the signature)
fn leak_kind(used: &str, fresh: &str) -> &'static str {
    if used.contains("panic") != fresh.contains("panic") {
        "panic"
    } else if used.contains("ongoing=Some(true)") != fresh.contains("ongoing=Some(true)") {
        "flag"
    } else if used.len() > fresh.len() {
        "extra-text-in-used-context"
    } else if used.len() < fresh.len() {
        "less-text-in-used-context"
    } else {
        "different-text"
    }
}

impl Prop for C06 {
    fn id(&self) -> &'static str {
        "C06"
    }
    fn rule(&self) -> String {
        "random histories over three layouts and random options (suggestions on 3/4, English on 1/2): a prefix of 1-10 events (all 111 keys, AltGr, backspaces, earlier words) ending in each of the terminators \
         (commit of the highlighted index, commit of another index, finish, ctrl-backspace on a non-empty composition, plain backspaces until one returns an empty suggestion), plus 16 targeted prefixes known to leave something behind (back-ticks, emoticon-shaped keys, swallowed keys, waiting signs, a waiting sign replaced by another one, reph on nothing) under every terminator against truly new contexts; then a continuation of 1-12 events replayed in the used context and in a reference context. \
         The reference is a second context over the same user directory whose method object is re-created before each comparison by update_engine to another layout and back; every mismatch is re-checked from scratch (the whole life of the used context is replayed on a new context, then the continuation is compared with a truly new context) before it is reported, \
         and one history in 8 (quick) / 4 (thorough) uses a truly new context directly. Flag clauses are judged on every event. distinct_nontrivial = distinct (configuration, terminator, hook state at the terminator) triples followed by a compared continuation."
            .into()
    }
    fn assumptions(&self) -> Vec<String> {
        vec![
            "'returns an empty suggestion' is judged literally (Suggestion::is_empty())".into(),
            "'always reach the idle state' is restated as a bound: at most (code points of the composition + 2) backspaces".into(),
            "the hook state is used only for coverage accounting and in witnesses, never for a verdict".into(),
        ]
    }
    fn shards(&self, tier: Tier) -> usize {
        tier.pick(16, 64)
    }
    fn minima(&self, _tier: Tier) -> Vec<(&'static str, u64)> {
        vec![
            ("terminator.commit", 1_500), ("terminator.commit_other_index", 1_500), ("terminator.finish", 1_500), ("terminator.ctrl_backspace", 1_000), ("terminator.backspace_to_empty", 1_500), ("continuations_compared", 6_000),
            ("continuations_against_truly_new_context", 500), ("idle_backspace_checked", 500), ("terminated_while_sign_pending", 50), ("terminated_with_raw_keys_out_of_step", 100),
            ("nonempty_preedit_implies_flag_checked", 20_000),
        ]
    }
    fn classify(&self, classifier: &str, _params: &Value, v: &Violation) -> bool {
        match classifier {
            // phonetic, suggestions off: what remains after the backspace transliterates to nothing (only back-ticks),
            // so the returned single string is empty although the composition is not
            "backtick-only-composition" => {
                let Some(st) = v.case.get("state_after_terminator") else { return false };
                let buf = st.get("buffer").and_then(|b| b.as_str()).unwrap_or("");
                // what is left (only back-ticks, or e.g. "o`" whose inherent vowel the back-tick suppresses) transliterates to nothing
                let (l, w, t) = crate::oracle::phon::split(buf, false);
                let ph = okkhor::parser::Parser::new_phonetic();
                let empty_output = buf.is_ascii() && format!("{}{}{}", ph.convert(&l), ph.convert(&w), ph.convert(&t)).is_empty();
                v.clause == "terminator-ends-session" && v.sig == "c06:flag-after-backspace_to_empty:phonetic:sugg=false" && !buf.is_empty() && buf.contains('`') && empty_output
            }
            _ => false,
        }
    }
    fn run_shard(&self, env: &Env, out: &mut Out) {
        let mut t = Tally::default();
        let mut rng = env.rng("c06");
        let root = env.root("c06");
        let root2 = env.root("c06-confirm");
        let files0 = UserFiles { selections: Some(SEED_STORE.to_string()), autocorrect: None };
        files0.install(&root);
        let allkeys: Vec<u16> = keys().iter().map(|k| k.code).collect();
        let common: Vec<char> = "aeioukgtdnrsmhlbcjyzwqxfvpONTDS:;.,`'\"()\\-/[]{}<>^1$".chars().collect();
        // ---- targeted prefixes (leak-prone states), every terminator, against truly new contexts
        let targeted: Vec<(Lay, u16, Vec<(char, u8)>)> = vec![
            (Lay::Phonetic, 0, vec![('`', 0), ('h', 0)]),
            (Lay::Phonetic, 0, vec![('`', 0)]),
            (Lay::Phonetic, O_ENG, vec![('a', 0), ('`', 0), ('`', 0)]),
            (Lay::Phonetic, O_PSUGG | O_ENG, vec![(':', 0), (')', 0)]),
            (Lay::Phonetic, O_PSUGG | O_ENG, vec![('`', 0), ('k', 0)]),
            (Lay::Probhat, O_FSUGG | O_ENG | O_VOWEL, vec![('d', 2), ('k', 0)]),
            (Lay::Probhat, O_FSUGG | O_ENG | O_KARORDER, vec![('i', 0)]),
            (Lay::Probhat, O_FSUGG | O_ENG | O_KARORDER, vec![('k', 0), ('i', 0), ('[', 0)]),
            (Lay::Probhat, O_FSUGG | O_ENG, vec![('k', 0), ('/', 0), ('a', 0)]),
            // a waiting sign replaced by another waiting sign (two or three keys, nothing composed)
            (Lay::Probhat, O_FSUGG | O_ENG | O_KARORDER, vec![('i', 0), ('[', 0)]),
            (Lay::Probhat, O_FSUGG | O_ENG | O_KARORDER, vec![('[', 0), ('i', 0), ('[', 0)]),
            (Lay::Verif, O_FSUGG | O_ENG | O_KARORDER | O_VOWEL | O_TKAR, vec![('k', 0), ('i', 0), ('[', 0)]),
            (Lay::Probhat, O_ENG | O_KARORDER, vec![('i', 0), ('[', 0)]),
            (Lay::Verif, O_FSUGG | O_ENG | O_REPH, vec![('r', 2), ('k', 0), ('q', 2)]),
            (Lay::Verif, O_FSUGG | O_ENG | O_KARORDER | O_VOWEL, vec![('[', 0), ('a', 0)]),
            (Lay::Probhat, O_FSUGG | O_ENG, vec![(';', 0), (')', 0)]),
        ];
        let mut n = 0usize;
        for (lay, opts, pre) in &targeted {
            for term in 0..5 {
                let mine = env.mine(n);
                n += 1;
                if !mine {
                    continue;
                }
                let spec = CfgSpec::new(*lay, *opts);
                let prefix: Vec<Ev> = pre.iter().map(|&(c, m)| Ev::Key(kc(c), m, 0xFF)).collect();
                let cont: Vec<Ev> = "kk:)".chars().map(|c| Ev::Key(kc(c), 0, 0xFF)).chain([Ev::Bs]).collect();
                let h = Hist { spec, prefix: prefix.clone(), term, cont };
                t.histories += 1;
                out.begin_case(|| hist_json(&h, &files0));
                check_with_true_fresh(&h, &files0, &root2, out, &mut t);
                // the same keys once more as the next word (what was learned for a text without any word part - an
                // emoticon - must be known to a new context as well)
                let h = Hist { spec, prefix: prefix.clone(), term, cont: prefix.clone() };
                t.histories += 1;
                out.begin_case(|| hist_json(&h, &files0));
                check_with_true_fresh(&h, &files0, &root2, out, &mut t);
            }
        }
        files0.install(&root);
        let ncfg = env.tier.pick(40, 150);
        let per = env.tier.pick(30, 60);
        let fresh_every = env.tier.pick(8, 4);
        let mut hno = 0usize;
        for _ in 0..ncfg {
            let spec = random_spec(&mut rng);
            let mut files_at_creation = snapshot(&root);
            let (Ok(mut used), Ok(mut reference)) = (Exec::new(spec, &root), Exec::new(spec, &root)) else {
                files0.install(&root);
                continue;
            };
            used.keep_log = true;
            for _ in 0..per {
                hno += 1;
                t.histories += 1;
                // prefix: sometimes an earlier word first
                let mut prefix: Vec<Ev> = vec![];
                if rng.chance(1, 3) {
                    for _ in 0..rng.range(1, 4) {
                        prefix.push(random_key(&mut rng, &allkeys, &common));
                    }
                    prefix.push(if rng.chance(1, 2) { Ev::Finish } else { Ev::Commit(usize::MAX) });
                }
                for _ in 0..rng.range(1, 10) {
                    prefix.push(if rng.chance(1, 6) { Ev::Bs } else { random_key(&mut rng, &allkeys, &common) });
                }
                let term = rng.below(5);
                let mut cont: Vec<Ev> = vec![];
                for _ in 0..rng.range(1, 12) {
                    cont.push(if rng.chance(1, 8) { Ev::Bs } else { random_key(&mut rng, &allkeys, &common) });
                }
                let h = Hist { spec, prefix, term, cont };
                let files = snapshot(&root);
                out.begin_case(|| hist_json(&h, &files));
                if hno % fresh_every == 0 {
                    // the whole history against a truly new context, on a scratch copy of the user files
                    check_with_true_fresh(&h, &files, &root2, out, &mut t);
                    continue;
                }
                let alive = run_prefix(&mut used, &h, &files, out, &mut t);
                if used.dead {
                    files_at_creation = snapshot(&root);
                    match Exec::new(spec, &root) {
                        Ok(e) => used = e,
                        Err(_) => break,
                    }
                    used.keep_log = true;
                    continue;
                }
                if !alive {
                    let _ = used.apply(&Ev::Finish);
                    continue;
                }
                if !reset_reference(&mut reference, spec) {
                    match Exec::new(spec, &root) {
                        Ok(e) => reference = e,
                        Err(_) => break,
                    }
                }
                let st = used.sess.state();
                out.distinct(fnv_str(&[&spec.short(), TERMS[term], &st.to_string()]));
                t.continuations += 1;
                let life_len = used.log.len();
                let diff = compare_cont(&mut used, &mut reference, &h.cont, &mut t);
                let _ = used.apply(&Ev::Finish);
                let _ = reference.apply(&Ev::Finish);
                if out.want_sample() && hno % 211 == 5 {
                    out.sample(hist_json(&h, &files));
                }
                if diff.is_some() {
                    // confirm from scratch: replay the whole life of the used context on a new one, then compare the
                    // continuation with a truly new context; only that verdict counts
                    t.confirmed_with_true_fresh += 1;
                    confirm_with_life(&h, &files_at_creation, &used.log[..life_len], &root2, out, &mut t);
                }
                if used.dead {
                    files_at_creation = snapshot(&root);
                    match Exec::new(spec, &root) {
                        Ok(e) => used = e,
                        Err(_) => break,
                    }
                    used.keep_log = true;
                }
            }
        }
        flush(&t, out);
    }
    fn replay(&self, env: &Env, case: &Value, out: &mut Out) {
        let Some(spec) = case.get("cfg").and_then(CfgSpec::from_json) else { return };
        let files = case.get("user_files").map(UserFiles::from_json).unwrap_or_default();
        if let (Some(life), Some(cont)) = (case.get("life_of_the_used_context").and_then(evs_from_json), case.get("continuation").and_then(evs_from_json)) {
            let term = TERMS.iter().position(|t| Some(*t) == case.get("terminator").and_then(|t| t.as_str())).unwrap_or(1);
            let h = Hist { spec, prefix: vec![], term, cont };
            let mut t = Tally::default();
            confirm_with_life(&h, &files, &life, &env.root("c06"), out, &mut t);
            flush(&t, out);
            return;
        }
        let (Some(prefix), Some(cont)) = (case.get("prefix").and_then(evs_from_json), case.get("continuation").and_then(evs_from_json)) else { return };
        let term = TERMS.iter().position(|t| Some(*t) == case.get("terminator").and_then(|t| t.as_str())).unwrap_or(1);
        let h = Hist { spec, prefix, term, cont };
        let mut t = Tally::default();
        check_with_true_fresh(&h, &files, &env.root("c06"), out, &mut t);
        flush(&t, out);
    }
}
