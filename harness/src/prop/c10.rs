//! C10 — damaged or missing user files never stop the keyboard from working.
//! Fault enumeration: every byte prefix of stores the engine itself wrote (the crash points of a save),
//! a corpus of malformed / wrong-shape / empty-string documents, directory and write faults.

use crate::base::*;
use crate::out::*;
use crate::prop::Prop;
use serde_json::{json, Value};
use std::collections::HashMap;
use std::path::Path;

pub struct C10;

#[derive(Default)]
struct Tally {
    calls: u64,
    faults: u64,
    prefix_faults: u64,
    corpus_faults: u64,
    dir_faults: u64,
    write_faults: u64,
    unreadable_compared_with_absent: u64,
    readable_docs: u64,
    failed_save_checks: u64,
    histories: u64,
    stress_rounds: u64,
    late_faults: u64,
    env_states: u64,
    mtime_steps: u64,
    leftover_tmp: u64,
}
fn flush(t: &Tally, out: &mut Out) {
    out.count("evaluations", t.histories);
    out.count("library_calls", t.calls);
    out.count("faults_injected", t.faults);
    out.count("faults.byte_prefixes_of_engine_written_files", t.prefix_faults);
    out.count("faults.corpus_documents", t.corpus_faults);
    out.count("faults.directory_states", t.dir_faults);
    out.count("faults.failed_saves", t.write_faults);
    out.count("unreadable_content_compared_with_absent_file", t.unreadable_compared_with_absent);
    out.count("readable_documents_exercised", t.readable_docs);
    out.count("failed_save_keeps_earlier_entries_checked", t.failed_save_checks);
    out.count("concurrent_stress_rounds", t.stress_rounds);
    out.count("faults.documents_appearing_under_a_running_context", t.late_faults);
    out.count("file_states_compared_between_XDG_DATA_HOME_and_HOME_fallback", t.env_states);
    out.count("auto_correct_file_replaced_with_non_advancing_time_stamps", t.mtime_steps);
    out.count("left_over_temporary_store_files", t.leftover_tmp);
}

/// Which of the two user files a document is installed as.
#[derive(Clone, Copy, PartialEq, Eq, Debug)]
enum Which {
    Store,
    AutoCorrect,
}
impl Which {
    fn name(self) -> &'static str {
        match self {
            Which::Store => "phonetic-candidate-selection.json",
            Which::AutoCorrect => "autocorrect.json",
        }
    }
    fn path(self, root: &Path) -> std::path::PathBuf {
        match self {
            Which::Store => selection_file(root),
            Which::AutoCorrect => autocorrect_file(root),
        }
    }
}

fn corpus() -> Vec<(&'static str, Vec<u8>)> {
    let mut v: Vec<(&'static str, Vec<u8>)> = vec![
        ("empty-file", b"".to_vec()),
        ("array", b"[]".to_vec()),
        ("number", b"1".to_vec()),
        ("string", b"\"x\"".to_vec()),
        ("null", b"null".to_vec()),
        ("true", b"true".to_vec()),
        ("value-number", b"{\"a\":1}".to_vec()),
        ("value-null", b"{\"a\":null}".to_vec()),
        ("value-array", b"{\"a\":[\"b\"]}".to_vec()),
        ("value-object", b"{\"a\":{\"b\":\"c\"}}".to_vec()),
        ("mixed-values", "{\"ami\":\"আমি\",\"a\":7}".as_bytes().to_vec()),
        ("duplicate-keys", "{\"a\":\"আ\",\"a\":\"এ\"}".as_bytes().to_vec()),
        ("bom", b"\xEF\xBB\xBF{\"a\":\"b\"}".to_vec()),
        ("invalid-utf8", b"{\"a\":\"\xff\xfe\"}".to_vec()),
        ("nul-bytes", b"{\"a\":\"b\"}\0\0\0".to_vec()),
        ("nul-inside", b"{\"a\0\":\"b\"}".to_vec()),
        ("trailing-garbage", b"{\"a\":\"b\"}garbage".to_vec()),
        ("two-documents", b"{\"a\":\"b\"}{\"c\":\"d\"}".to_vec()),
        ("whitespace-only", b"  \n\t ".to_vec()),
        ("unterminated", b"{\"a\":\"b".to_vec()),
        ("single-brace", b"{".to_vec()),
        ("empty-object", b"{}".to_vec()),
        ("empty-value", b"{\"a\":\"\"}".to_vec()),
        ("empty-key", "{\"\":\"আ\"}".as_bytes().to_vec()),
        ("empty-key-and-value", b"{\"\":\"\"}".to_vec()),
        ("empty-values-many", "{\"a\":\"\",\"ami\":\"\",\"as\":\"\",\"e\":\"\",\"k\":\"\",\":\":\"\",\"am\":\"\"}".as_bytes().to_vec()),
        ("space-values", b"{\"a\":\" \",\"ami\":\"  \"}".to_vec()),
        ("escaped-unicode", b"{\"ami\":\"\\u0986\\u09ae\\u09bf\"}".to_vec()),
        ("lone-surrogate", b"{\"a\":\"\\ud800\"}".to_vec()),
        // valid documents whose replacements are neither ASCII nor Bengali letters: danda, currency sign, curved quotes, an
        // emoji, a lone non-joiner, a letter of another script, a control character (keys are words the battery types)
        ("values-non-ascii-non-bengali", "{\"a\":\"।\",\"k\":\"₹\",\"e\":\"😀\",\"am\":\"“x”\",\"as\":\"\u{200c}\",\"ami\":\"Ħé\",\"word7\":\"\\u0007\\u001b\"}".as_bytes().to_vec()),
        ("values-mixed-scripts", "{\"a\":\"aআ\",\"k\":\"ক-k\",\"e\":\"e😀e\",\"ami\":\"আমি ami\",\"as\":\"\\u09cd\"}".as_bytes().to_vec()),
    ];
    let mut deep = Vec::new();
    deep.extend(std::iter::repeat(b'[').take(200));
    deep.extend(std::iter::repeat(b']').take(200));
    v.push(("deep-nesting", deep));
    let mut deepobj = String::new();
    for _ in 0..200 {
        deepobj.push_str("{\"a\":");
    }
    deepobj.push_str("\"x\"");
    for _ in 0..200 {
        deepobj.push('}');
    }
    v.push(("deep-object", deepobj.into_bytes()));
    v
}

fn big_object() -> Vec<u8> {
    // ~5 MB valid object
    let mut m = serde_json::Map::new();
    for i in 0..120_000 {
        m.insert(format!("word{i}"), json!(format!("শব্দ{i}নম্বর")));
    }
    m.insert("ami".into(), json!("আমই"));
    serde_json::to_vec(&Value::Object(m)).unwrap()
}

/// Is the content readable as the engine's map (a JSON object of string -> string)?
fn readable(bytes: &[u8]) -> Option<HashMap<String, String>> {
    serde_json::from_slice::<HashMap<String, String>>(bytes).ok()
}

/// The fixed battery. Every riti call is guarded; returns the renderings of the probe typings (made before any commit).
fn battery(root: &Path, label: &str, case: &dyn Fn() -> Value, out: &mut Out, t: &mut Tally) -> Option<Vec<String>> {
    t.histories += 1;
    let mut probes: Vec<String> = vec![];
    let mut fail = |what: &str, p: &Panic, out: &mut Out| {
        out.violation("keeps-working", format!("c10:panic@{}:{}", p.loc, what), case(), format!("{what} keeps working with the user files in state: {label}"), format!("panic at {}: {}", p.loc, p.msg));
    };
    // H1: phonetic with suggestions: construct, probe typings (incl. words of the store / auto-correct list and their suffix forms), learning commit, re-type
    let spec = CfgSpec::new(Lay::Phonetic, O_PSUGG | O_ENG);
    t.calls += 1;
    let mut sess = match Sess::new(spec, root) {
        Ok(s) => s,
        Err(p) => {
            fail("creating a context", &p, out);
            return None;
        }
    };
    for w in ["a", "ai", "ae", "agulo", "ami", "amie", "amigulo", "as", ":e", ":", "am", "k", "ke", "word7", "word7e", "e"] {
        t.calls += w.len() as u64 + 1;
        match sess.type_text_protocol(w) {
            Ok(Some(s)) => probes.push(format!("{w}={}", Rs::of(&s).to_json())),
            Ok(None) => {}
            Err(p) => {
                fail("typing", &p, out);
                return None;
            }
        }
        if let Err(p) = sess.finish() {
            fail("finish", &p, out);
            return None;
        }
    }
    // learning commits (saves)
    for (w, idx) in [("tumi", 1usize), ("ami", 1), (":)", 1), ("a", 2)] {
        t.calls += w.len() as u64 + 1;
        match sess.type_text_protocol(w) {
            Ok(Some(s)) => {
                let n = if s.is_lonely() { 1 } else { s.len() };
                if let Err(p) = sess.commit(idx.min(n - 1)) {
                    fail("committing a candidate", &p, out);
                    return None;
                }
                // "committing keeps working": the commit ends the word whether or not the save went through
                if sess.ongoing().unwrap_or(false) {
                    out.violation("keeps-working", "c10:commit-did-not-end-the-word".into(), case(), format!("ongoing_input_session() = false after committing a candidate of {w:?} with the user files in state: {label}"), "true".into());
                    let _ = sess.finish();
                }
            }
            Ok(None) => {}
            Err(p) => {
                fail("typing", &p, out);
                return None;
            }
        }
    }
    for w in ["tumi", "tumie", "ami", ":e", "ai"] {
        t.calls += w.len() as u64 + 1;
        if let Err(p) = sess.type_text_protocol(w).and_then(|_| sess.finish()) {
            fail("typing after a commit", &p, out);
            return None;
        }
    }
    // H3: re-loading the configuration (idle), also towards another layout and back
    t.calls += 3;
    for s2 in [spec.with(O_SQ), CfgSpec::new(Lay::Probhat, O_FSUGG), spec] {
        if let Err(p) = sess.update(s2) {
            fail("update_engine", &p, out);
            return None;
        }
    }
    t.calls += 4;
    if let Err(p) = sess.type_text_protocol("ami").and_then(|_| sess.finish()) {
        fail("typing after update_engine", &p, out);
        return None;
    }
    // H6: restart over the same directory
    t.calls += 1;
    if let Err(p) = sess.restart() {
        fail("creating a context after commits", &p, out);
        return None;
    }
    t.calls += 5;
    if let Err(p) = sess.type_text_protocol("tumi").and_then(|_| sess.finish()) {
        fail("typing in the restarted context", &p, out);
        return None;
    }
    // H4: suggestions off
    t.calls += 6;
    match Sess::new(CfgSpec::new(Lay::Phonetic, 0), root) {
        Ok(s) => {
            if let Err(p) = s.type_text("ami").and_then(|_| s.commit(0)) {
                fail("typing with suggestions off", &p, out);
                return None;
            }
        }
        Err(p) => {
            fail("creating a context (suggestions off)", &p, out);
            return None;
        }
    }
    // H5: fixed layout over the same directory
    t.calls += 4;
    match Sess::new(CfgSpec::new(Lay::Probhat, O_FSUGG | O_ENG), root) {
        Ok(s) => {
            if let Err(p) = s.type_text("kaj").and_then(|_| s.commit(0)) {
                fail("typing in fixed mode", &p, out);
                return None;
            }
        }
        Err(p) => {
            fail("creating a fixed-layout context", &p, out);
            return None;
        }
    }
    Some(probes)
}

/// The fault appears while a context is already running: start over absent files, install the document (later mtime),
/// re-load the configuration, then type the probes and commit. Returns the probe renderings made after the re-load.
fn battery_late(root: &Path, which: Which, bytes: &[u8], label: &str, case: &dyn Fn() -> Value, out: &mut Out, t: &mut Tally) -> Option<Vec<String>> {
    t.histories += 1;
    fresh_root(root);
    let fail = |what: &str, p: &Panic, out: &mut Out| {
        out.violation("keeps-working", format!("c10:panic@{}:{}", p.loc, what), case(), format!("{what} keeps working when the user files change to this state under a running context: {label}"), format!("panic at {}: {}", p.loc, p.msg));
    };
    let spec = CfgSpec::new(Lay::Phonetic, O_PSUGG | O_ENG);
    t.calls += 1;
    let mut sess = match Sess::new(spec, root) {
        Ok(s) => s,
        Err(p) => {
            fail("creating a context", &p, out);
            return None;
        }
    };
    // warm the memo with the words that the document may mention
    for w in ["ami", "a", "as"] {
        t.calls += w.len() as u64 + 1;
        if let Err(p) = sess.type_text_protocol(w).and_then(|_| sess.finish()) {
            fail("typing", &p, out);
            return None;
        }
    }
    std::fs::write(which.path(root), bytes).unwrap();
    if let Ok(f) = std::fs::File::options().write(true).open(which.path(root)) {
        let _ = f.set_modified(std::time::SystemTime::now() + std::time::Duration::from_secs(5));
    }
    t.calls += 1;
    if let Err(p) = sess.update(spec) {
        fail("update_engine after the file changed", &p, out);
        return None;
    }
    let mut probes = vec![];
    for w in ["a", "ai", "ae", "agulo", "ami", "amie", "amike", "amigulo", "as", "ase", ":e", "k", "word7", "word7e", "e"] {
        t.calls += w.len() as u64 + 1;
        match sess.type_text_protocol(w) {
            Ok(Some(s)) => probes.push(format!("{w}={}", Rs::of(&s).to_json())),
            Ok(None) => {}
            Err(p) => {
                fail("typing after the re-load", &p, out);
                return None;
            }
        }
        if let Err(p) = sess.finish() {
            fail("finish", &p, out);
            return None;
        }
    }
    t.calls += 6;
    match sess.type_text_protocol("tumi") {
        Ok(Some(s)) => {
            let n = if s.is_lonely() { 1 } else { s.len() };
            if let Err(p) = sess.commit(1.min(n - 1)) {
                fail("committing after the re-load", &p, out);
                return None;
            }
        }
        Ok(None) => {}
        Err(p) => {
            fail("typing after the re-load", &p, out);
            return None;
        }
    }
    Some(probes)
}

fn install_doc(root: &Path, which: Which, bytes: &[u8]) {
    fresh_root(root);
    std::fs::write(which.path(root), bytes).unwrap();
}

/// Stores the engine itself writes: learn a few choices, collect the file after every commit.
fn engine_written_stores(root: &Path, n: usize, rng: &mut Rng) -> Vec<Vec<u8>> {
    let mut outv: Vec<Vec<u8>> = vec![];
    let words = ["ami", "tumi", "as", "amar", "onno", "sesh", "kotha", "ebong", "hothat", "boi", "kal", "a", "e", "smile", "cool", "\"as\"", "(ami)", "kk", "desh", "nodi"];
    'outer: for round in 0..50 {
        fresh_root(root);
        let Ok(sess) = Sess::new(CfgSpec::new(Lay::Phonetic, O_PSUGG | if round % 2 == 0 { O_SQ } else { 0 }), root) else { break };
        for _ in 0..rng.range(1, 8) {
            let w = words[rng.below(words.len())];
            if let Ok(Some(s)) = sess.type_text_protocol(w) {
                let n2 = if s.is_lonely() { 1 } else { s.len() };
                let _ = sess.commit(rng.below(n2));
            }
            if let Ok(b) = std::fs::read(selection_file(root)) {
                if !outv.contains(&b) {
                    outv.push(b);
                    if outv.len() >= n {
                        break 'outer;
                    }
                }
            }
        }
    }
    outv
}

fn set_fsize_limit(limit: Option<u64>) {
    unsafe {
        libc::signal(libc::SIGXFSZ, libc::SIG_IGN);
        let mut rl = libc::rlimit { rlim_cur: 0, rlim_max: 0 };
        libc::getrlimit(libc::RLIMIT_FSIZE, &mut rl);
        rl.rlim_cur = match limit {
            Some(l) => l as libc::rlim_t,
            None => rl.rlim_max,
        };
        libc::setrlimit(libc::RLIMIT_FSIZE, &rl);
    }
}

impl Prop for C10 {
    fn id(&self) -> &'static str {
        "C10"
    }
    fn level(&self) -> &'static str {
        "fault_enumeration"
    }
    fn rule(&self) -> String {
        "faults: (a) every byte prefix 0..len of learned-selection stores the engine itself wrote in this run (25 stores quick, 200 thorough) and of a user auto-correct file; \
         (b) a corpus of 32 documents installed as either file, before the context is created and again under a running context followed by update_engine: wrong shapes, empty file, BOM, invalid UTF-8, NUL bytes, deep nesting, trailing garbage, duplicate keys, empty-string keys and values, a 5 MB object; \
         (c) directory states: user directory missing, user directory is a regular file, store path is a directory, auto-correct path is a directory, dangling symlinks; failed saves: file-size limit 0 / 10 / 40 bytes (RLIMIT_FSIZE), user directory removed or replaced by a file, the save's temporary path linked to /dev/full (ENOSPC); (e) three file states (valid, damaged, directory missing) once with the user directory named by XDG_DATA_HOME and once by the HOME/.local/share fallback: same probe renderings required; (f) the user auto-correct file replaced under a running context with time stamps an hour earlier, equal, the epoch, ten years ahead, earlier again, by rename, removed, re-created with an old stamp - update_engine and typing must keep working; (g) a left-over temporary store file (short junk, 5 kB junk, a valid older store) before two learning commits: a new context must pre-select the first choice; \
         (d, thorough) three processes committing into / constructing over one directory. Each fault is followed by a fixed battery: construct, 16 probe typings (words of the files and their suffix forms), 4 learning commits, re-typing, \
         update_engine x3, restart, suggestions-off and fixed-layout contexts. Unreadable content must give the probe renderings of an absent file; after a failed save (of a new word, or of a *changed* choice for a stored word) and a later successful save of another word, the earlier entries must still be pre-selected by a new context; (e) the same file states with the user directory named by XDG_DATA_HOME, by HOME alone, and by XDG_DATA_HOME while HOME is absent from the environment. \
         distinct_nontrivial = distinct faults after which the battery was run."
            .into()
    }
    fn assumptions(&self) -> Vec<String> {
        vec![
            "content is unreadable iff it does not parse as a JSON object of string -> string (serde_json called by the harness)".into(),
            "the sandbox runs as root, so permission bits cannot deny a write; ENOENT / ENOTDIR / EISDIR / ENOSPC (/dev/full) / EFBIG (RLIMIT_FSIZE) reach the same error path".into(),
            "the concurrent stress judges only 'no panic'".into(),
        ]
    }
    fn shards(&self, tier: Tier) -> usize {
        tier.pick(16, 32)
    }
    fn watchdog_s(&self, tier: Tier) -> u64 {
        tier.pick(1200, 4 * 3600)
    }
    fn minima(&self, _tier: Tier) -> Vec<(&'static str, u64)> {
        vec![
            ("faults.byte_prefixes_of_engine_written_files", 300), ("faults.corpus_documents", 60), ("faults.directory_states", 4), ("faults.failed_saves", 5),
            ("unreadable_content_compared_with_absent_file", 300), ("readable_documents_exercised", 10), ("failed_save_keeps_earlier_entries_checked", 5), ("faults.documents_appearing_under_a_running_context", 60), ("file_states_compared_between_XDG_DATA_HOME_and_HOME_fallback", 3), ("auto_correct_file_replaced_with_non_advancing_time_stamps", 8), ("left_over_temporary_store_files", 3),
        ]
    }
    fn run_shard(&self, env: &Env, out: &mut Out) {
        let mut t = Tally::default();
        let mut rng = Rng::derive(env.seed, "c10", 0); // same stores in every shard; the prefixes are sharded
        let root = env.root("c10");
        let gen_root = env.root("c10-gen");
        let thorough = env.tier == Tier::Thorough;
        // reference renderings: both files absent
        fresh_root(&root);
        let Some(absent) = battery(&root, "absent", &|| json!({"fault": "none (both files absent)"}), out, &mut t) else {
            flush(&t, out);
            return;
        };
        let Some(absent_late) = battery_late(&root, Which::AutoCorrect, b"{}", "empty object", &|| json!({"fault": "none (empty auto-correct object installed late)"}), out, &mut t) else {
            flush(&t, out);
            return;
        };
        let mut item = 0usize;
        // ---- (a) byte prefixes
        let stores = engine_written_stores(&gen_root, env.tier.pick(25, 200), &mut rng);
        let user_ac = "{\"amar\":\"tomar\",\"onno\":\"Onno\",\"as\":\"ash\",\"kk\":\"kOk\",\"bd\":\"bangladesh\"}".as_bytes().to_vec();
        let mut docs: Vec<(Which, &Vec<u8>)> = stores.iter().map(|s| (Which::Store, s)).collect();
        docs.push((Which::AutoCorrect, &user_ac));
        for (di, (which, doc)) in docs.iter().enumerate() {
            for cut in 0..doc.len() {
                let mine = env.mine(item);
                item += 1;
                if !mine {
                    continue;
                }
                let bytes = &doc[..cut];
                let label = format!("{} truncated to {cut} of {} bytes", which.name(), doc.len());
                let case = || json!({"fault": "byte-prefix", "file": which.name(), "full_document": String::from_utf8_lossy(doc), "cut": cut});
                out.begin_case(&case);
                install_doc(&root, *which, bytes);
                t.faults += 1;
                t.prefix_faults += 1;
                out.distinct(fnv_str(&["prefix", &di.to_string(), &cut.to_string()]));
                if let Some(p) = battery(&root, &label, &case, out, &mut t) {
                    if readable(bytes).is_none() {
                        t.unreadable_compared_with_absent += 1;
                        if p != absent {
                            let k = p.iter().zip(&absent).position(|(a, b)| a != b).unwrap_or(0);
                            out.violation("unreadable-is-absent", format!("c10:unreadable-differs:{}", which.name()), case(), format!("same results as with the file absent, e.g. {}", absent[k]), p[k].clone());
                        }
                    }
                }
            }
        }
        // ---- (b) corpus
        let mut corp = corpus();
        let big = big_object();
        corp.push(("five-megabyte-object", big));
        for (name, bytes) in &corp {
            for which in [Which::Store, Which::AutoCorrect] {
                let mine = env.mine(item);
                item += 1;
                if !mine {
                    continue;
                }
                let label = format!("{} = corpus document {name}", which.name());
                let case = || json!({"fault": "corpus-document", "file": which.name(), "document": name, "content": if bytes.len() < 300 { String::from_utf8_lossy(bytes).to_string() } else { format!("({} bytes)", bytes.len()) }});
                out.begin_case(&case);
                install_doc(&root, which, bytes);
                t.faults += 1;
                t.corpus_faults += 1;
                out.distinct(fnv_str(&["corpus", name, which.name()]));
                if let Some(p) = battery(&root, &label, &case, out, &mut t) {
                    if readable(bytes).is_none() {
                        t.unreadable_compared_with_absent += 1;
                        if p != absent {
                            let k = p.iter().zip(&absent).position(|(a, b)| a != b).unwrap_or(0);
                            out.violation("unreadable-is-absent", format!("c10:unreadable-differs:{}:{name}", which.name()), case(), format!("same results as with the file absent, e.g. {}", absent[k]), p[k].clone());
                        }
                    } else {
                        t.readable_docs += 1;
                    }
                }
                // the same document appearing under a running context, picked up by update_engine
                t.late_faults += 1;
                let late_case = || { let mut c = case(); c["installed"] = json!("after the context was created, before update_engine"); c };
                if let Some(p) = battery_late(&root, which, bytes, &label, &late_case, out, &mut t) {
                    if which == Which::AutoCorrect && readable(bytes).is_none() && p != absent_late {
                        let k = p.iter().zip(&absent_late).position(|(a, b)| a != b).unwrap_or(0);
                        out.violation("unreadable-is-absent", format!("c10:unreadable-differs-after-reload:{name}"), late_case(), format!("same results as with an empty list, e.g. {}", absent_late[k]), p[k].clone());
                    }
                }
                if out.want_sample() && item % 13 == 1 {
                    out.sample(case());
                }
            }
        }
        // ---- (c) directory states
        let dir_states: Vec<(&str, Box<dyn Fn(&Path)>)> = vec![
            ("user-directory-missing", Box::new(|r: &Path| {
                let _ = std::fs::remove_dir_all(r);
                std::fs::create_dir_all(r).unwrap();
            })),
            ("user-directory-is-a-regular-file", Box::new(|r: &Path| {
                let _ = std::fs::remove_dir_all(r);
                std::fs::create_dir_all(r).unwrap();
                std::fs::write(user_dir(r), b"not a directory").unwrap();
            })),
            ("store-path-is-a-directory", Box::new(|r: &Path| {
                fresh_root(r);
                std::fs::create_dir_all(selection_file(r)).unwrap();
            })),
            ("autocorrect-path-is-a-directory", Box::new(|r: &Path| {
                fresh_root(r);
                std::fs::create_dir_all(autocorrect_file(r)).unwrap();
            })),
            ("store-temp-path-is-a-directory", Box::new(|r: &Path| {
                fresh_root(r);
                std::fs::create_dir_all(selection_file(r).with_extension("json.tmp")).unwrap();
            })),
            ("dangling-symlinks", Box::new(|r: &Path| {
                fresh_root(r);
                std::os::unix::fs::symlink("/nonexistent/a", selection_file(r)).unwrap();
                std::os::unix::fs::symlink("/nonexistent/b", autocorrect_file(r)).unwrap();
            })),
        ];
        for (name, setup) in &dir_states {
            let mine = env.mine(item);
            item += 1;
            if !mine {
                continue;
            }
            let case = || json!({"fault": "directory-state", "state": name});
            out.begin_case(&case);
            setup(&root);
            t.faults += 1;
            t.dir_faults += 1;
            out.distinct(fnv_str(&["dir", name]));
            battery(&root, name, &case, out, &mut t);
            let _ = std::fs::remove_dir_all(&root);
        }
        // ---- failed saves: earlier entries must survive
        const S0: &str = "{\"ami\":\"আমই\",\"as\":\"আশ\",\"sesh\":\"শেষ\"}";
        let save_faults: Vec<(&str, Option<u64>)> = vec![("file-size-limit-0", Some(0)), ("file-size-limit-10", Some(10)), ("file-size-limit-40", Some(40)), ("user-directory-removed", None), ("user-directory-replaced-by-file", None), ("save-target-is-dev-full-ENOSPC", None)];
        for (name, limit) in &save_faults {
            // (`ami` already has a saved choice: the failed save is then a *change* of that choice)
            for learn in ["tumi", "kotha", "ami"] {
                let mine = env.mine(item);
                item += 1;
                if !mine {
                    continue;
                }
                let case = || json!({"fault": "failed-save", "how": name, "store_before": S0, "word_being_learned": learn, "then": "a learning commit of another word (tumi / kotha), which is saved successfully"});
                out.begin_case(&case);
                fresh_root(&root);
                std::fs::write(selection_file(&root), S0).unwrap();
                t.faults += 1;
                t.write_faults += 1;
                out.distinct(fnv_str(&["save", name, learn]));
                let spec = CfgSpec::new(Lay::Phonetic, O_PSUGG);
                let Ok(sess) = Sess::new(spec, &root) else { continue };
                let typed = sess.type_text_protocol(learn);
                // inject
                let saved_dir = env.root("c10-moved");
                let _ = std::fs::remove_dir_all(&saved_dir);
                match *name {
                    "user-directory-removed" => std::fs::rename(user_dir(&root), &saved_dir).unwrap(),
                    "user-directory-replaced-by-file" => {
                        std::fs::rename(user_dir(&root), &saved_dir).unwrap();
                        std::fs::write(user_dir(&root), b"x").unwrap();
                    }
                    "save-target-is-dev-full-ENOSPC" => {
                        // whatever path the save opens for writing ends up on /dev/full (write -> ENOSPC); created after
                        // construction, because reading /dev/full never ends
                        let tmp = selection_file(&root).with_extension("json.tmp");
                        std::os::unix::fs::symlink("/dev/full", &tmp).unwrap();
                    }
                    _ => set_fsize_limit(*limit),
                }
                t.calls += 1;
                let mut chosen = String::new();
                let r = match typed {
                    Ok(Some(s)) if !s.is_lonely() && s.len() > 1 => {
                        let idx = (s.previously_selected_index() + 1) % s.len();
                        chosen = s.get_suggestions()[idx].clone();
                        sess.commit(idx)
                    }
                    _ => Ok(()),
                };
                // remove the fault
                match *name {
                    "user-directory-removed" => std::fs::rename(&saved_dir, user_dir(&root)).unwrap(),
                    "user-directory-replaced-by-file" => {
                        std::fs::remove_file(user_dir(&root)).unwrap();
                        std::fs::rename(&saved_dir, user_dir(&root)).unwrap();
                    }
                    "save-target-is-dev-full-ENOSPC" => {
                        let _ = std::fs::remove_file(selection_file(&root).with_extension("json.tmp"));
                        // if the save went through the store path itself (no temporary file), that path is now the device link
                        if std::fs::symlink_metadata(selection_file(&root)).map(|m| m.file_type().is_symlink()).unwrap_or(false) {
                            let _ = std::fs::remove_file(selection_file(&root));
                        }
                    }
                    _ => set_fsize_limit(None),
                }
                if let Err(p) = r {
                    out.violation("keeps-working", format!("c10:panic@{}:failed-save", p.loc), case(), "a failed save is survived".into(), format!("panic at {}: {}", p.loc, p.msg));
                    continue;
                }
                // the commit ends the word although the save failed, and the next word starts from nothing
                let still = sess.ongoing().unwrap_or(false);
                let first = sess.key(kc('a'), 0, 0).ok().map(|s| if s.is_lonely() { s.get_lonely_suggestion().to_string() } else { s.get_auxiliary_text().to_string() });
                let _ = sess.finish();
                if still || first.as_deref() != Some("a") {
                    out.violation("keeps-working", format!("c10:failed-save-left-the-word-open:{name}"), case(), "after the commit: no ongoing session, and the next key a starts a new word (auxiliary text \"a\")".into(),
                                  format!("ongoing={still}, auxiliary text of the next key: {first:?}"));
                }
                // the same context keeps working
                if let Err(p) = sess.type_text_protocol("ami").and_then(|_| sess.finish()) {
                    out.violation("keeps-working", format!("c10:panic@{}:after-failed-save", p.loc), case(), "typing after a failed save".into(), format!("panic at {}", p.loc));
                    continue;
                }
                // two stages: right after the failed save (what a crash or another application would find on disk), and after
                // a later save that succeeds (another word, same context), which must write every earlier entry out again
                let later_word = if learn == "tumi" { "kotha" } else { "tumi" };
                let mut later_choice = String::new();
                for stage in ["right after the failed save", "after a later successful save"] {
                if stage == "after a later successful save" {
                // a later save that succeeds (another word, same context) must write every earlier entry out again
                match sess.type_text_protocol(later_word) {
                    Ok(Some(s)) if !s.is_lonely() && s.len() > 1 => {
                        let idx = (s.previously_selected_index() + 1) % s.len();
                        later_choice = s.get_suggestions()[idx].clone();
                        let _ = sess.commit(idx);
                    }
                    _ => {
                        let _ = sess.finish();
                    }
                }
                }
                // a new context still pre-selects every earlier entry
                t.failed_save_checks += 1;
                let content = std::fs::read(selection_file(&root)).unwrap_or_default();
                match Sess::new(spec, &root) {
                    Err(p) => out.violation("failed-save-loses-at-most-one-choice", format!("c10:panic@{}:restart-after-failed-save", p.loc), case(), "a new context can be created".into(), format!("panic at {}", p.loc)),
                    Ok(n) => {
                        // the choice learned after the fault was removed is saved like any other (one failed save does not
                        // switch saving off)
                        if !later_choice.is_empty() {
                            if let Ok(Some(s)) = n.type_text_protocol(later_word) {
                                let _ = n.finish();
                                let got = s.get_suggestions().get(s.previously_selected_index()).cloned().unwrap_or_default();
                                if got != later_choice {
                                    out.violation("failed-save-loses-at-most-one-choice", format!("c10:choice-learned-after-the-failed-save-is-lost:{name}"), case(),
                                                  format!("{later_choice:?} pre-selected for {later_word:?} by a new context (it was learned after the fault was removed)"), format!("{got:?}; store on disk now: {:?}", String::from_utf8_lossy(&content)));
                                }
                            } else {
                                let _ = n.finish();
                            }
                        }
                        for (w, want) in [("ami", "আমই"), ("as", "আশ"), ("sesh", "শেষ")] {
                            match n.type_text_protocol(w) {
                                Ok(Some(s)) => {
                                    let _ = n.finish();
                                    let got = s.get_suggestions().get(s.previously_selected_index()).cloned().unwrap_or_default();
                                    // the word whose change of choice failed to be saved may show the old or the new choice
                                    if got != want && !(w == learn && got == chosen) {
                                        out.violation("failed-save-loses-at-most-one-choice", format!("c10:earlier-entry-lost:{name}:{}", if stage.starts_with("right") { "at-once" } else { "after-later-save" }), case(),
                                                      format!("{want:?} still pre-selected for {w:?} by a new context (only the choice being saved may be lost)"), format!("{got:?}; store on disk now: {:?}", String::from_utf8_lossy(&content)));
                                        break;
                                    }
                                }
                                _ => {
                                    let _ = n.finish();
                                }
                            }
                        }
                    }
                }
                }
            }
        }
        // ---- (e) the environment that names the user directory: XDG_DATA_HOME unset, $HOME/.local/share instead.
        // The same file states must be treated the same way under either rule.
        if env.shard == 1 % env.nshards {
            let home_root = env.root("c10-home").join(".local").join("share");
            let xdg_root = env.root("c10-xdg");
            let states: Vec<(&str, Option<&[u8]>, Option<&[u8]>)> = vec![
                ("both files valid", Some(b"{\"ami\":\"\xe0\xa6\x86\xe0\xa6\xae\xe0\xa6\x87\",\"as\":\"\xe0\xa6\x86\xe0\xa6\xb6\"}"), Some(b"{\"am\":\"tomar\",\"k\":\"kO\"}")),
                ("both files damaged", Some(b"{\"ami\":"), Some(b"[1,2")),
                ("user directory missing", None, None),
            ];
            for (name, store, ac) in &states {
                let mut res: Vec<Option<Vec<String>>> = vec![];
                for (home, root) in [(true, &home_root), (false, &xdg_root), (false, &xdg_root)] {
                    // third round: XDG_DATA_HOME names the directory and HOME is not in the environment at all
                    let no_home = res.len() == 2;
                    let _ = std::fs::remove_dir_all(root);
                    std::fs::create_dir_all(root).unwrap();
                    if store.is_some() || ac.is_some() {
                        std::fs::create_dir_all(user_dir(root)).unwrap();
                    }
                    if let Some(b) = store {
                        std::fs::write(selection_file(root), b).unwrap();
                    }
                    if let Some(b) = ac {
                        std::fs::write(autocorrect_file(root), b).unwrap();
                    }
                    let case = || json!({"fault": "environment", "user_directory_named_by": if home { "HOME (XDG_DATA_HOME unset)" } else if no_home { "XDG_DATA_HOME (HOME unset)" } else { "XDG_DATA_HOME" }, "state": name});
                    out.begin_case(&case);
                    HOME_ENV.store(home, std::sync::atomic::Ordering::Relaxed);
                    NO_HOME_ENV.store(no_home, std::sync::atomic::Ordering::Relaxed);
                    let r = battery(root, name, &case, out, &mut t);
                    HOME_ENV.store(false, std::sync::atomic::Ordering::Relaxed);
                    NO_HOME_ENV.store(false, std::sync::atomic::Ordering::Relaxed);
                    res.push(r);
                }
                t.env_states += 1;
                if let (Some(Some(b)), Some(Some(c))) = (res.get(1), res.get(2)) {
                    if b != c {
                        let k = b.iter().zip(c.iter()).position(|(x, y)| x != y).unwrap_or(0);
                        out.violation("keeps-working", format!("c10:unset-home-differs:{name}"), json!({"fault": "environment", "state": name}),
                                      format!("{} (XDG_DATA_HOME and HOME set)", b.get(k).cloned().unwrap_or_default()), format!("{} (XDG_DATA_HOME set, HOME unset)", c.get(k).cloned().unwrap_or_default()));
                    }
                }
                if let (Some(Some(a)), Some(Some(b))) = (res.first(), res.get(1)) {
                    if a != b {
                        let k = a.iter().zip(b.iter()).position(|(x, y)| x != y).unwrap_or(0);
                        out.violation("keeps-working", format!("c10:home-fallback-differs:{name}"), json!({"fault": "environment", "state": name}),
                                      format!("{} (user directory named by XDG_DATA_HOME)", b.get(k).cloned().unwrap_or_default()), format!("{} (named by HOME/.local/share)", a.get(k).cloned().unwrap_or_default()));
                    }
                }
            }
            let _ = std::fs::remove_dir_all(env.root("c10-home"));
            let _ = std::fs::remove_dir_all(&xdg_root);
        }
        // ---- (g) what an interrupted save leaves behind: a temporary file next to the store (shorter / longer than the
        // next store, valid / junk). The next saves must go through: a new context pre-selects what was learned.
        if env.shard == 3 % env.nshards {
            let r = env.root("c10-leftover");
            let spec = CfgSpec::new(Lay::Phonetic, O_PSUGG);
            for (name, content) in [("short junk", "{\"x".to_string()), ("long junk", format!("{{\"left\":\"over\",\"pad\":\"{}\"}}", "y".repeat(5000))), ("a valid older store", "{\"ami\":\"\u{0986}\u{09ae}\u{0987}\"}".to_string())] {
                let case = || json!({"fault": "left-over-temporary-store-file", "content": name});
                out.begin_case(&case);
                fresh_root(&r);
                std::fs::write(selection_file(&r).with_extension("json.tmp"), &content).unwrap();
                t.leftover_tmp += 1;
                let res = (|| -> Result<Option<(String, String)>, Panic> {
                    let sess = Sess::new(spec, &r)?;
                    let mut want = None;
                    let mut first_bad: Option<String> = None;
                    for w in ["tumi", "kotha"] {
                        if let Some(s) = sess.type_text_protocol(w)? {
                            let n = s.len();
                            let idx = (s.previously_selected_index() + 1) % n.max(1);
                            if w == "tumi" {
                                want = s.get_suggestions().get(idx).cloned();
                            }
                            sess.commit(idx)?;
                            // a new context right after every save
                            let n = Sess::new(spec, &r)?;
                            let got = n.type_text_protocol("tumi")?.map(|s| s.get_suggestions().get(s.previously_selected_index()).cloned().unwrap_or_default());
                            n.finish()?;
                            if got != want && first_bad.is_none() {
                                first_bad = Some(format!("{} (right after the save of {w:?})", got.unwrap_or_default()));
                            }
                        }
                    }
                    let n = Sess::new(spec, &r)?;
                    let got = n.type_text_protocol("tumi")?.map(|s| s.get_suggestions().get(s.previously_selected_index()).cloned().unwrap_or_default());
                    n.finish()?;
                    Ok(want.zip(got).map(|(w, g)| (w, if first_bad.is_some() { first_bad.clone().unwrap() } else { g })))
                })();
                match res {
                    Err(p) => out.violation("keeps-working", format!("c10:panic@{}:left-over temporary file", p.loc), case(), "saving and restarting work".into(), format!("panic at {}: {}", p.loc, p.msg)),
                    Ok(Some((want, got))) if want != got => {
                        let store = std::fs::read(selection_file(&r)).unwrap_or_default();
                        out.violation("failed-save-loses-at-most-one-choice", format!("c10:choice-lost-with-left-over-temporary-file:{name}"), case(),
                                      format!("{want:?} pre-selected for \"tumi\" by a new context (it was chosen, and another word was learned after it)"), format!("{got:?}; store on disk: {:?}", String::from_utf8_lossy(&store)));
                    }
                    _ => {}
                }
            }
            let _ = std::fs::remove_dir_all(&r);
        }
        // ---- (f) the user auto-correct file replaced under a running context with time stamps that do not advance
        // (restored backup, cp -p, clock set back), by rename, and removed: only "keeps working" is judged here
        if env.shard == 2 % env.nshards {
            use std::time::{Duration, SystemTime};
            let r = env.root("c10-mtime");
            fresh_root(&r);
            let now = SystemTime::now();
            let stamp = |t: SystemTime| {
                if let Ok(f) = std::fs::File::options().write(true).open(autocorrect_file(&r)) {
                    let _ = f.set_modified(t);
                }
            };
            std::fs::write(autocorrect_file(&r), b"{\"ami\":\"tumi\"}").unwrap();
            stamp(now);
            let spec = CfgSpec::new(Lay::Phonetic, O_PSUGG);
            if let Ok(mut sess) = Sess::new(spec, &r) {
                let steps: Vec<(&str, Option<SystemTime>)> = vec![
                    ("an hour earlier", Some(now - Duration::from_secs(3600))), ("the same instant", Some(now - Duration::from_secs(3600))), ("the epoch", Some(SystemTime::UNIX_EPOCH)),
                    ("ten years ahead", Some(now + Duration::from_secs(315_360_000))), ("earlier again", Some(now - Duration::from_secs(7200))), ("replaced by rename", Some(now + Duration::from_secs(400_000_000))), ("removed", None),
                    ("created again with an old stamp", Some(now - Duration::from_secs(86_400))),
                ];
                for (i, (name, t_new)) in steps.iter().enumerate() {
                    let case = || json!({"fault": "time-stamp", "user_autocorrect_replaced_with_mtime": name, "step": i});
                    out.begin_case(&case);
                    match (name, t_new) {
                        (_, None) => {
                            let _ = std::fs::remove_file(autocorrect_file(&r));
                        }
                        (&"replaced by rename", Some(t0)) => {
                            let tmp = autocorrect_file(&r).with_extension("new");
                            std::fs::write(&tmp, format!("{{\"ami\":\"v{i}\"}}")).unwrap();
                            std::fs::rename(&tmp, autocorrect_file(&r)).unwrap();
                            stamp(*t0);
                        }
                        (_, Some(t0)) => {
                            std::fs::write(autocorrect_file(&r), format!("{{\"ami\":\"v{i}\"}}")).unwrap();
                            stamp(*t0);
                        }
                    }
                    t.mtime_steps += 1;
                    t.calls += 6;
                    let r2 = sess.update(spec).and_then(|_| sess.type_text_protocol("amie")).and_then(|_| sess.finish());
                    if let Err(p) = r2 {
                        out.violation("keeps-working", format!("c10:panic@{}:auto-correct file replaced with mtime {name}", p.loc), case(), "update_engine and typing keep working".into(), format!("panic at {}: {}", p.loc, p.msg));
                        break;
                    }
                }
            }
            let _ = std::fs::remove_dir_all(&r);
        }
        // ---- (d) concurrent stress (thorough): three processes over one directory; only "no panic" is judged
        if thorough && env.shard < 3 {
            let shared = env.scratch.parent().unwrap().join("c10-shared");
            std::fs::create_dir_all(user_dir(&shared)).unwrap();
            let spec = CfgSpec::new(Lay::Phonetic, O_PSUGG);
            for round in 0..400 {
                t.stress_rounds += 1;
                let case = || json!({"fault": "concurrent-processes", "round": round, "role": env.shard});
                match Sess::new(spec, &shared) {
                    Err(p) => {
                        out.violation("keeps-working", format!("c10:panic@{}:concurrent-construct", p.loc), case(), "creating a context while other processes save".into(), format!("panic at {}: {}", p.loc, p.msg));
                        break;
                    }
                    Ok(s) => {
                        if env.shard < 2 {
                            for w in ["ami", "tumi", "as"] {
                                if let Ok(Some(sg)) = s.type_text_protocol(w) {
                                    let n = if sg.is_lonely() { 1 } else { sg.len() };
                                    if let Err(p) = s.commit((round + env.shard) % n) {
                                        out.violation("keeps-working", format!("c10:panic@{}:concurrent-commit", p.loc), case(), "committing while other processes save".into(), format!("panic at {}", p.loc));
                                    }
                                }
                            }
                        }
                    }
                }
            }
        }
        flush(&t, out);
    }
    fn replay(&self, env: &Env, case: &Value, out: &mut Out) {
        let root = env.root("c10");
        let mut t = Tally::default();
        let which = if case.get("file").and_then(|f| f.as_str()) == Some("autocorrect.json") { Which::AutoCorrect } else { Which::Store };
        fresh_root(&root);
        let absent = battery(&root, "absent", &|| json!({"fault": "none"}), out, &mut t);
        match case.get("fault").and_then(|f| f.as_str()) {
            Some("byte-prefix") => {
                let doc = case.get("full_document").and_then(|d| d.as_str()).unwrap_or("").as_bytes().to_vec();
                let cut = case.get("cut").and_then(|c| c.as_u64()).unwrap_or(0) as usize;
                let bytes = &doc[..cut.min(doc.len())];
                install_doc(&root, which, bytes);
                if let (Some(p), Some(a)) = (battery(&root, "replayed prefix", &|| case.clone(), out, &mut t), absent) {
                    if readable(bytes).is_none() && p != a {
                        out.violation("unreadable-is-absent", format!("c10:unreadable-differs:{}", which.name()), case.clone(), "same results as with the file absent".into(), "different".into());
                    }
                }
            }
            Some("corpus-document") => {
                let name = case.get("document").and_then(|d| d.as_str()).unwrap_or("");
                let mut corp = corpus();
                corp.push(("five-megabyte-object", big_object()));
                if let Some((_, bytes)) = corp.iter().find(|(n, _)| *n == name) {
                    install_doc(&root, which, bytes);
                    if let (Some(p), Some(a)) = (battery(&root, name, &|| case.clone(), out, &mut t), absent) {
                        if readable(bytes).is_none() && p != a {
                            out.violation("unreadable-is-absent", format!("c10:unreadable-differs:{}:{name}", which.name()), case.clone(), "same results as with the file absent".into(), "different".into());
                        }
                    }
                }
            }
            _ => out.note("this witness kind is re-checked by running the C10 check again".into()),
        }
        flush(&t, out);
    }
}
