//! One monitor + workload per property.

use crate::base::*;
use crate::out::*;
use serde_json::Value;

pub mod c01;
pub mod c02;
pub mod c03;
pub mod c04;
pub mod c05;
pub mod c06;
pub mod c07;
pub mod c08;
pub mod c09;
pub mod c10;
pub mod c11;
pub mod c12;
pub mod c13;
pub mod c14;
pub mod c15;
pub mod c16;
pub mod c17;
pub mod c18;
pub mod c19;

pub trait Prop {
    fn id(&self) -> &'static str;
    /// evidence level: "exploration" or "fault_enumeration"
    fn level(&self) -> &'static str {
        "exploration"
    }
    /// How cases are generated and what makes one distinct / non-trivial (evidence `coverage.rule`).
    fn rule(&self) -> String;
    fn assumptions(&self) -> Vec<String>;
    fn shards(&self, tier: Tier) -> usize {
        match tier {
            Tier::Quick => 16,
            Tier::Thorough => 64,
        }
    }
    /// Run shard `env.shard` of `env.nshards`.
    fn run_shard(&self, env: &Env, out: &mut Out);
    /// Re-execute one recorded case and re-evaluate its clauses.
    fn replay(&self, env: &Env, case: &Value, out: &mut Out);
    /// Counters that must reach at least the given value, otherwise the run is INCONCLUSIVE.
    fn minima(&self, tier: Tier) -> Vec<(&'static str, u64)>;
    fn exhaustive(&self, _tier: Tier) -> bool {
        false
    }
    /// Known-finding classifiers of this property.
    fn classify(&self, _classifier: &str, _params: &Value, _v: &Violation) -> bool {
        false
    }
    /// Extra orchestrator-level work (sanitizer builds etc.). Runs after the shards; may add to `merged`.
    /// Returns Err(reason) when the step could not be carried out (=> INCONCLUSIVE).
    fn extra(&self, _tier: Tier, _seed: u64, _merged: &mut Out) -> Result<(), String> {
        Ok(())
    }
    /// Per-shard wall-clock watchdog in seconds (firing => INCONCLUSIVE, never a violation).
    fn watchdog_s(&self, tier: Tier) -> u64 {
        match tier {
            Tier::Quick => 900,
            Tier::Thorough => 4 * 3600,
        }
    }
}

pub fn all() -> Vec<Box<dyn Prop>> {
    vec![Box::new(c01::C01), Box::new(c02::C02), Box::new(c03::C03), Box::new(c04::C04), Box::new(c05::C05), Box::new(c06::C06), Box::new(c07::C07), Box::new(c08::C08), Box::new(c09::C09), Box::new(c10::C10), Box::new(c11::C11), Box::new(c12::C12), Box::new(c13::C13), Box::new(c14::C14), Box::new(c15::C15), Box::new(c16::C16), Box::new(c17::C17), Box::new(c18::C18), Box::new(c19::C19)]
}

pub fn by_id(id: &str) -> Option<Box<dyn Prop>> {
    all().into_iter().find(|p| p.id() == id)
}
