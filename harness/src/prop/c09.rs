//! C09 — a learned candidate choice is remembered, also after a restart.
//! Model-based monitor over commit / re-typing histories (front-end protocol selection bytes).

use crate::base::*;
use crate::oracle::phon::{join, PhonOracle, PUNCT};
use crate::out::*;
use crate::prop::Prop;
use serde_json::{json, Value};
use std::collections::HashMap;

pub struct C09;

#[derive(Default)]
struct Tally {
    calls: u64,
    typings: u64,
    learning_commits: u64,
    default_commits: u64,
    own_judged: u64,
    own_judged_after_restart: u64,
    suffix_judged: u64,
    other_wrapping_agree: u64,
    other_wrapping_differ: u64,
    store_checks: u64,
    restarts: u64,
    wrapped_learns: u64,
    quote_learns: u64,
    commits_after_backspace: u64,
    histories_with_leftover_tmp: u64,
    histories_with_second_profile: u64,
    targeted_special_join_histories: u64,
}
fn flush(t: &Tally, out: &mut Out) {
    out.count("histories_with_a_second_profile_opened_in_the_same_process", t.histories_with_second_profile);
    out.count("targeted_histories_with_a_learned_choice_ending_in_khanda_ta_or_anusvara", t.targeted_special_join_histories);
    out.count("evaluations", t.calls);
    out.count("typings", t.typings);
    out.count("learning_commits", t.learning_commits);
    out.count("learning_commits_with_wrapping", t.wrapped_learns);
    out.count("learning_commits_with_quotes_and_smart_quotes_on", t.quote_learns);
    out.count("default_commits_checked_store_unchanged", t.default_commits);
    out.count("same_text_retypings_judged", t.own_judged);
    out.count("same_text_retypings_judged_in_new_context", t.own_judged_after_restart);
    out.count("suffix_form_retypings_judged", t.suffix_judged);
    out.count("observed_only.other_wrapping_same_choice", t.other_wrapping_agree);
    out.count("observed_only.other_wrapping_other_choice", t.other_wrapping_differ);
    out.count("store_file_checked_after_commit", t.store_checks);
    out.count("restarts", t.restarts);
    out.count("commits_from_a_list_returned_by_backspace", t.commits_after_backspace);
    out.count("histories_starting_with_a_leftover_temporary_store_file", t.histories_with_leftover_tmp);
}

// (the last three contain characters that need escaping in the JSON store or are special in a regular expression)
const BASES: [&str; 17] = ["onno", "ami", "as", "kotha", "sesh", "ebong", "hothat", "amar", "tumi", "boi", "Ami", "kal", "smile", "a", "a\\k", "k^o", "$ami"];
// (the last three are the longest keys of the suffix table: 12 and 13 letters)
const SFX: [&str; 13] = ["gulo", "e", "er", "ke", "ra", "i", "o", "te", "mala", "der", "shombondhiyo", "shombondhiyoo", "shombondhiyoi"];

#[derive(Clone)]
struct Learned {
    /// full candidate text that was committed
    full: String,
    /// text (with wrapping) that was on the composition when it was committed
    text: String,
    /// middle part (wrapping removed), when the candidate carried the wrapping
    middle: Option<String>,
    lead: String,
    trail: String,
}

struct Step {
    restart: bool,
    lead: String,
    word: String,
    trail: String,
    /// None = commit the pre-selected index; Some(k) = commit index (pre-selected + 1 + k) mod len
    pick: Option<usize>,
    /// this many extra letters are typed after the text and erased again, so that the list committed from is the answer to a backspace
    overshoot: usize,
}

fn steps_json(spec: &CfgSpec, steps: &[Step]) -> Value {
    json!({"cfg": spec.to_json(), "steps": steps.iter().map(|s| json!({"restart_before": s.restart, "lead": s.lead, "word": s.word, "trail": s.trail, "commit": match s.pick { None => json!("preselected"), Some(k) => json!(k) }, "typed_past_and_erased": s.overshoot})).collect::<Vec<_>>()})
}

fn gen_history(rng: &mut Rng, thorough: bool) -> (CfgSpec, Vec<Step>) {
    let mut opts = O_PSUGG;
    if rng.chance(1, 2) {
        opts |= O_ENG;
    }
    if rng.chance(1, 2) {
        opts |= O_SQ;
    }
    let spec = CfgSpec::new(Lay::Phonetic, opts);
    let punct: Vec<char> = PUNCT.chars().collect();
    let quoteheavy: Vec<char> = "'\"(.".chars().collect();
    // a small vocabulary per history so that re-typings are frequent
    let nb = rng.range(2, 4);
    let bases: Vec<&str> = (0..nb).map(|_| BASES[rng.below(BASES.len())]).collect();
    let wraps: Vec<(String, String)> = (0..3)
        .map(|_| {
            let mut l = String::new();
            let mut r = String::new();
            if rng.chance(1, 2) {
                for _ in 0..rng.range(1, 2) {
                    l.push(if rng.chance(1, 2) { *rng.pick(&quoteheavy) } else { *rng.pick(&punct) });
                }
            }
            if rng.chance(1, 2) {
                for _ in 0..rng.range(1, 2) {
                    r.push(if rng.chance(1, 2) { *rng.pick(&quoteheavy) } else { *rng.pick(&punct) });
                }
            }
            // an escaped colon is unambiguously trailing punctuation (it comes out as a literal ':')
            if rng.chance(1, 6) {
                r.insert_str(0, ":`");
            }
            (l, r)
        })
        .collect();
    let n = rng.range(5, if thorough { 40 } else { 24 });
    let mut steps = vec![];
    for _ in 0..n {
        let b = bases[rng.below(bases.len())];
        let s = if rng.chance(1, 3) { SFX[rng.below(SFX.len())] } else { "" };
        let (l, r) = if rng.chance(1, 2) { (String::new(), String::new()) } else { wraps[rng.below(wraps.len())].clone() };
        steps.push(Step { restart: rng.chance(1, 7), lead: l, word: format!("{b}{s}"), trail: r, pick: if rng.chance(1, 2) { None } else { Some(rng.below(6)) }, overshoot: if rng.chance(1, 4) { rng.range(1, 2) } else { 0 } });
    }
    (spec, steps)
}

fn store_ok(root: &std::path::Path) -> Result<Option<String>, String> {
    match std::fs::read(selection_file(root)) {
        Err(_) => Ok(None),
        Ok(bytes) => {
            let s = String::from_utf8(bytes).map_err(|_| "store is not UTF-8".to_string())?;
            let v: Value = serde_json::from_str(&s).map_err(|e| format!("store is not JSON: {e}; content {s:?}"))?;
            let obj = v.as_object().ok_or_else(|| format!("store is not a JSON object: {s:?}"))?;
            if let Some((k, _)) = obj.iter().find(|(_, v)| !v.is_string()) {
                return Err(format!("store value of {k:?} is not a string: {s:?}"));
            }
            Ok(Some(s))
        }
    }
}

fn run_history(o: &PhonOracle, spec: CfgSpec, steps: &[Step], root: &std::path::Path, final_restart_check: bool, out: &mut Out, t: &mut Tally) {
    fresh_root(root);
    // what a save interrupted between writing and renaming leaves behind: a temporary file next to the store (in the
    // histories whose first word is typed past its end - a quarter of them -, longer than any store of the history)
    if steps.first().map_or(false, |s| s.overshoot > 0) {
        let junk = format!("{{\"left\":\"over\",\"pad\":\"{}\"}}", "x".repeat(4000));
        let _ = std::fs::write(selection_file(root).with_extension("json.tmp"), junk);
        t.histories_with_leftover_tmp += 1;
    }
    let Ok(mut sess) = Sess::new(spec, root) else { return };
    // in every second history a second profile is opened in the same process after the context was created (another
    // XDG_DATA_HOME, as when an application hosts two users' keyboards): the context must keep saving into the user
    // directory it was created for, and nothing may appear in the other one
    let second_profile = root.with_file_name("c09-second-profile");
    let _decoy = if steps.len() % 2 == 0 {
        fresh_root(&second_profile);
        t.histories_with_second_profile += 1;
        Sess::new(CfgSpec::new(Lay::Phonetic, O_PSUGG), &second_profile).ok()
    } else {
        None
    };
    let mut model: HashMap<String, Learned> = HashMap::new();
    let mut since_restart = true;
    let sq = spec.has(O_SQ);
    let case = |upto: usize| steps_json(&spec, &steps[..=upto.min(steps.len() - 1)]);
    for (si, st) in steps.iter().enumerate() {
        if st.restart {
            if sess.restart().is_err() {
                out.violation("store-always-loadable", "c09:restart-panic".into(), case(si), "a new context can be constructed over the user directory".into(), "panic".into());
                return;
            }
            t.restarts += 1;
            t.calls += 1;
            since_restart = true;
        }
        let text = format!("{}{}{}", st.lead, st.word, st.trail);
        let s = match sess.type_text_protocol(&text) {
            Ok(Some(s)) => s,
            _ => {
                let _ = sess.finish();
                continue;
            }
        };
        t.calls += text.len() as u64;
        t.typings += 1;
        let s = if st.overshoot > 0 {
            // type past the text and come back by backspaces
            let r = (|| -> Result<riti::suggestion::Suggestion, Panic> {
                let mut sel = if s.is_lonely() { 0 } else { s.previously_selected_index().min(255) as u8 };
                for c in "hs".chars().take(st.overshoot) {
                    let x = sess.key(kc(c), 0, sel)?;
                    sel = if x.is_lonely() { 0 } else { x.previously_selected_index().min(255) as u8 };
                }
                let mut last = sess.bs(false)?;
                for _ in 1..st.overshoot {
                    last = sess.bs(false)?;
                }
                Ok(last)
            })();
            t.calls += 2 * st.overshoot as u64;
            t.commits_after_backspace += 1;
            match r {
                Ok(x) if !x.is_empty() && !x.is_lonely() => x,
                _ => {
                    let _ = sess.finish();
                    continue;
                }
            }
        } else {
            s
        };
        let list = s.get_suggestions().to_vec();
        let sel = s.previously_selected_index();
        if sel >= list.len() {
            // C02's business (known finding there); this typing cannot be judged
            let _ = sess.finish();
            continue;
        }
        let (mut pre, mut post) = (o.avro(&st.lead), o.avro(&st.trail));
        if sq {
            pre = curl_open(&pre);
            post = curl_close(&post);
        }
        let strip = |x: &str| x.strip_prefix(pre.as_str()).and_then(|r| r.strip_suffix(post.as_str())).map(|s| s.to_string());
        out.distinct(fnv_str(&[&text, &spec.opts.to_string(), &si.to_string()]));
        // ---- judge the pre-selection
        if let Some(l) = model.get(&st.word) {
            if l.text == text {
                t.own_judged += 1;
                if since_restart && st.restart {
                    t.own_judged_after_restart += 1;
                }
                if list[sel] != l.full {
                    let offered = list.contains(&l.full);
                    let mut c = case(si);
                    c["at"] = json!({"text": text, "learned_candidate": l.full, "preselected": list[sel], "offered": offered, "list": list, "learned_is_raw_text": l.full == l.text,
                                     "wrapping_has_quotes": st.lead.contains(['\'', '"']) || st.trail.contains(['\'', '"']), "smart_quotes": sq, "in_new_context": st.restart, "wrapping_converted": [pre, post]});
                    out.violation("choice-remembered-for-same-text", format!("c09:own:offered={offered}:raw={}:sq-quotes={}", l.full == l.text, sq && (st.lead.contains(['\'', '"']) || st.trail.contains(['\'', '"']))), c,
                                  format!("pre-selected candidate {:?} (committed earlier for {text:?})", l.full), format!("{:?} (index {sel}) of {list:?}", list[sel]));
                }
            } else if let Some(m) = &l.middle {
                // another wrapping: the statement promises nothing; recorded as an observation
                if strip(&list[sel]).as_deref() == Some(m.as_str()) {
                    t.other_wrapping_agree += 1;
                } else {
                    t.other_wrapping_differ += 1;
                }
            }
        } else if st.word.is_ascii() {
            // suffix clause: exactly one learned base split, learned under the same wrapping
            let w = &st.word;
            let mut wants: Vec<(String, &Learned)> = vec![];
            let mut learned_splits = 0;
            for k in 1..w.len() {
                if let (Some(sv), Some(l)) = (o.suffix.get(&w[k..]), model.get(&w[..k])) {
                    // every learned base counts as a split, also one whose chosen candidate cannot be joined (raw text, rare letters)
                    learned_splits += 1;
                    if let Some(m) = &l.middle {
                        if let Some(j) = join(m, sv) {
                            wants.push((j, l));
                        }
                    }
                }
            }
            if learned_splits == 1 && wants.len() == 1 && wants[0].1.lead == st.lead && wants[0].1.trail == st.trail {
                let want = format!("{pre}{}{post}", wants[0].0);
                if list.contains(&want) {
                    t.suffix_judged += 1;
                    if list[sel] != want {
                        let mut c = case(si);
                        c["at"] = json!({"text": text, "expected_joined_candidate": want, "preselected": list[sel], "list": list, "offered": true, "wrapping_converted": [pre, post]});
                        out.violation("choice-carried-to-suffix-form", "c09:suffix-form-not-preselected".into(), c,
                                      format!("pre-selected candidate {want:?} (learned base choice {:?} joined to the suffix)", wants[0].1.full), format!("{:?} (index {sel}) of {list:?}", list[sel]));
                    }
                }
            }
        }
        // ---- commit
        let idx = match st.pick {
            None => sel,
            Some(k) => (sel + 1 + k) % list.len(),
        };
        let before = std::fs::read(selection_file(root)).ok();
        if std::env::var("VERIF_DEBUG").is_ok() {
            eprintln!("step {si}: text={text:?} list={list:?} sel={sel} commit={idx} store_before={:?}", before.as_ref().map(|b| String::from_utf8_lossy(b).to_string()));
        }
        t.calls += 1;
        if sess.commit(idx).is_err() {
            out.violation("store-always-loadable", "c09:commit-panic".into(), case(si), "commit returns".into(), "panic".into());
            return;
        }
        let after = std::fs::read(selection_file(root)).ok();
        t.store_checks += 1;
        if let Err(why) = store_ok(root) {
            out.violation("store-always-loadable", "c09:store-shape".into(), case(si), "the store is a JSON object of string -> string".into(), why);
        }
        if idx == sel {
            t.default_commits += 1;
            // semantic comparison: a rewrite with the same entries (hash-map order) changes nothing
            let parse = |b: &Option<Vec<u8>>| b.as_ref().and_then(|b| serde_json::from_slice::<Value>(b).ok());
            if parse(&before) != parse(&after) {
                out.violation("default-commit-changes-nothing", "c09:default-commit-rewrote-store".into(), case(si),
                              format!("store unchanged: {:?}", before.as_ref().map(|b| String::from_utf8_lossy(b).to_string())), format!("{:?}", after.as_ref().map(|b| String::from_utf8_lossy(b).to_string())));
            }
        } else {
            t.learning_commits += 1;
            if !st.lead.is_empty() || !st.trail.is_empty() {
                t.wrapped_learns += 1;
            }
            if sq && (st.lead.contains(['\'', '"']) || st.trail.contains(['\'', '"'])) {
                t.quote_learns += 1;
            }
            model.insert(st.word.clone(), Learned { full: list[idx].clone(), text: text.clone(), middle: strip(&list[idx]), lead: st.lead.clone(), trail: st.trail.clone() });
            if after.is_none() {
                out.violation("store-always-loadable", "c09:store-missing-after-learning-commit".into(), case(si), "the store file exists after a learning commit".into(), "no file".into());
            }
            if out.want_sample() && t.learning_commits % 37 == 5 {
                out.sample(json!({"typed": text, "list": list, "preselected_index": sel, "committed_index": idx, "store_after": after.as_ref().map(|b| String::from_utf8_lossy(b).to_string())}));
            }
        }
        since_restart = false;
    }
    if _decoy.is_some() && selection_file(&second_profile).exists() {
        out.violation("choice-remembered-for-same-text", "c09:choice-saved-into-another-profile".into(), case(steps.len() - 1), "learned choices are saved into the user directory the context was created for".into(),
                      format!("a store appeared in the directory of a second profile opened later in the same process: {:?}", std::fs::read_to_string(selection_file(&second_profile)).unwrap_or_default()));
    }
    // ---- every learned text once more in a truly new context
    if final_restart_check && !model.is_empty() {
        if sess.restart().is_err() {
            out.violation("store-always-loadable", "c09:restart-panic".into(), case(steps.len() - 1), "a new context can be constructed over the user directory".into(), "panic".into());
            return;
        }
        t.restarts += 1;
        let mut words: Vec<&String> = model.keys().collect();
        words.sort();
        for w in words {
            let l = &model[w];
            let Ok(Some(s)) = sess.type_text_protocol(&l.text) else { continue };
            let _ = sess.finish();
            t.calls += l.text.len() as u64;
            let list = s.get_suggestions().to_vec();
            let sel = s.previously_selected_index();
            if sel >= list.len() {
                continue;
            }
            t.own_judged += 1;
            t.own_judged_after_restart += 1;
            if list[sel] != l.full {
                let offered = list.contains(&l.full);
                let (mut fpre, mut fpost) = (o.avro(&l.lead), o.avro(&l.trail));
                if sq {
                    fpre = curl_open(&fpre);
                    fpost = curl_close(&fpost);
                }
                let mut c = case(steps.len() - 1);
                let has_q = l.lead.contains(['\'', '"']) || l.trail.contains(['\'', '"']);
                c["at"] = json!({"text": l.text, "learned_candidate": l.full, "preselected": list[sel], "offered": offered, "list": list, "learned_is_raw_text": l.full == l.text,
                                 "wrapping_has_quotes": has_q, "smart_quotes": sq, "in_new_context": true, "final_check": true, "wrapping_converted": [fpre, fpost]});
                out.violation("choice-remembered-for-same-text", format!("c09:own:offered={offered}:raw={}:sq-quotes={}", l.full == l.text, sq && has_q), c,
                              format!("pre-selected candidate {:?} (committed earlier for {:?}) in a new context", l.full, l.text), format!("{:?} (index {sel}) of {list:?}", list[sel]));
            }
        }
    }
}

fn flush_trace(t: &crate::systrace::TraceTally, out: &mut Out) {
    out.count("syscall_monitor.traced_child_processes", t.runs);
    out.count("syscall_monitor.system_calls_observed", t.syscalls);
    out.count("syscall_monitor.learning_commits_with_exactly_one_rename_onto_the_store", t.learn_windows);
    out.count("syscall_monitor.preselected_commits_observed_writing_nothing", t.same_windows);
    out.count("syscall_monitor.other_calls_observed_writing_nothing", t.quiet_windows);
    out.count("syscall_monitor.renames_onto_the_store", t.renames_onto_store);
    out.count("syscall_monitor.bytes_written_to_temporary_files", t.bytes_written_to_temporaries);
    out.count("syscall_monitor.unavailable", t.unavailable);
}

/// One traced child process: a history of typings, learning / non-learning commits, restarts and re-configurations whose
/// system calls are checked against the trace specification of systrace.rs.
fn trace_one(env: &Env, tseed: u64, rounds: usize, out: &mut Out, tt: &mut crate::systrace::TraceTally) {
    let root = env.root("c09-traced");
    let logs = env.root("c09-trace-logs");
    let case = |child: &Value| json!({"syscall_trace": true, "trace_seed": tseed, "rounds": rounds, "child_history": child});
    out.begin_case(|| case(&Value::Null));
    match crate::systrace::run_and_check(&root, &logs, tseed, rounds, tt) {
        Ok((viol, child)) => {
            if out.want_sample() && tseed % 4 == 0 {
                out.sample(json!({"syscall_trace_of_child": child, "verdict": if viol.is_empty() { "every learning commit = open/write/close of a temporary file + one rename onto the store; nothing else wrote" } else { "violations" }}));
            }
            for v in viol {
                let mut c = case(&child);
                c["system_calls"] = json!(v.excerpt);
                out.violation(v.clause, v.sig, c, v.expected, v.observed);
            }
        }
        Err(why) => out.note(format!("syscall monitor could not observe: {why}")),
    }
    let _ = std::fs::remove_dir_all(&root);
    let _ = std::fs::remove_dir_all(&logs);
}

impl Prop for C09 {
    fn id(&self) -> &'static str {
        "C09"
    }
    fn rule(&self) -> String {
        "histories of 5-24 (quick) / 5-40 (thorough) words from a small per-history vocabulary (2-4 of 17 bases incl. three with a backslash, a caret, a dollar sign, 13 suffixes incl. the three longest of the table, 3 wrappings over the C03 punctuation set with quote-heavy weighting; a bare ':' excluded, the escaped colon ':`' included as trailing punctuation), \
         suggestions on, English and smart quotes free; every word is typed with front-end protocol selection bytes, the pre-selection is judged against a 20-line model (word -> committed candidate, latest wins; updated only by commits of a non-pre-selected index), \
         in a quarter of the words 1-2 more letters are typed and erased again so that the list committed from is the answer to a backspace; then either the pre-selected or another index is committed; the store file is parsed after every commit; a quarter of the histories start with a left-over temporary store file (4 kB) in the user directory; a context restart before 1 word in 7 and, at the end of every history, every learned text is typed once more in a new context. \
         Re-typings under another wrapping are recorded as observations only. Syscall monitor: 4 (quick) / 128 (thorough) child processes run 18-40 rounds of typing, learning and non-learning commits, restarts and re-configurations under strace, every library call bracketed by marker system calls; the recorded open/write/close/rename/unlink/truncate calls under the user directory are checked against a trace specification (the store path is never opened for writing, truncated, unlinked or moved; it changes only by a rename of a file that was written and closed before, exactly once per learning commit; nothing else writes). distinct_nontrivial = distinct (text, options, position in history) typings."
            .into()
    }
    fn assumptions(&self) -> Vec<String> {
        vec![
            "the same-text clause is judged only when the text (wrapping included) equals the text at the time of the commit; the suffix clause only when the model holds exactly one learned base split, learned under the same wrapping, and the joined candidate is offered".into(),
            "wrapping of a candidate = avro(lead) / avro(trail), curled when smart quotes are on (O-avro = okkhor called directly)".into(),
            "typings whose returned index is out of range (known finding of C02) are not judged".into(),
        ]
    }
    fn shards(&self, tier: Tier) -> usize {
        tier.pick(16, 64)
    }
    fn minima(&self, _tier: Tier) -> Vec<(&'static str, u64)> {
        vec![
            ("learning_commits", 3_000), ("default_commits_checked_store_unchanged", 3_000), ("same_text_retypings_judged", 2_000), ("same_text_retypings_judged_in_new_context", 1_000),
            ("suffix_form_retypings_judged", 150), ("learning_commits_with_wrapping", 1_000), ("learning_commits_with_quotes_and_smart_quotes_on", 100), ("store_file_checked_after_commit", 6_000), ("commits_from_a_list_returned_by_backspace", 1_000), ("histories_starting_with_a_leftover_temporary_store_file", 100),
        ]
    }
    fn classify(&self, classifier: &str, _params: &Value, v: &Violation) -> bool {
        let Some(at) = v.case.get("at") else { return false };
        let b = |k: &str| at.get(k).and_then(|x| x.as_bool()).unwrap_or(false);
        match classifier {
            // the committed candidate was the raw typed text (English option) of a text whose wrapping is converted
            // (e.g. "as." -> the looked-up text is built with the converted wrapping "as।" and never equals it)
            "raw-text-choice-with-converted-wrapping" => {
                let text = at.get("text").and_then(|t| t.as_str()).unwrap_or("");
                let learned = at.get("learned_candidate").and_then(|t| t.as_str()).unwrap_or("");
                v.clause == "choice-remembered-for-same-text" && b("learned_is_raw_text") && learned == text && b("offered") && text.chars().any(|c| PUNCT.contains(c) || c == ':' || c == '`')
            }
            // the wrapping transliterates to something that is not punctuation (",," is Avro's explicit hasanta), so the stored
            // candidate keeps it and the lookup appends it a second time
            "wrapping-converts-to-non-punctuation" => {
                let conv: Vec<&str> = at.get("wrapping_converted").and_then(|w| w.as_array()).map(|a| a.iter().filter_map(|x| x.as_str()).collect()).unwrap_or_default();
                let odd = |s: &str| s.chars().any(|c| !(c.is_ascii_punctuation() || c == '।' || "‘’“”".contains(c)));
                (v.clause == "choice-remembered-for-same-text" || v.clause == "choice-carried-to-suffix-form") && !b("learned_is_raw_text") && b("offered") && conv.iter().any(|s| odd(s))
            }
            _ => false,
        }
    }
    fn run_shard(&self, env: &Env, out: &mut Out) {
        let Ok(o) = PhonOracle::new() else {
            out.note("oracle load failed".into());
            return;
        };
        let mut t = Tally::default();
        let mut rng = env.rng("c09");
        let root = env.root("c09");
        let thorough = env.tier == Tier::Thorough;
        let n = env.tier.pick(60, 400);
        for _ in 0..n {
            let (spec, steps) = gen_history(&mut rng, thorough);
            out.begin_case(|| steps_json(&spec, &steps));
            run_history(&o, spec, &steps, &root, true, out, &mut t);
        }
        // targeted: a learned choice that ends in ৎ / ং (joined as ত / ঙ) followed by suffixes that begin with a letter and with a sign
        if env.shard == 0 {
            for (base, k) in [("ishot", 1usize), ("rong", 0), ("song", 3)] {
                for sfx in ["i", "o", "ke", "ra", "te", "er", "e", "gulo"] {
                    let st = |restart: bool, word: String, pick: Option<usize>| Step { restart, lead: String::new(), word, trail: String::new(), pick, overshoot: 0 };
                    let steps = vec![st(false, base.to_string(), Some(k)), st(false, format!("{base}{sfx}"), None), st(true, format!("{base}{sfx}"), None), st(false, base.to_string(), None)];
                    let spec = CfgSpec::new(Lay::Phonetic, O_PSUGG);
                    out.begin_case(|| steps_json(&spec, &steps));
                    t.targeted_special_join_histories += 1;
                    run_history(&o, spec, &steps, &root, true, out, &mut t);
                }
            }
        }
        flush(&t, out);
        // the same clauses observed from outside: system calls of a traced child process (see systrace.rs)
        let nshards = env.nshards.max(1);
        let per = env.tier.pick(1, 4);
        let mut tt = crate::systrace::TraceTally::default();
        for k in 0..per {
            let tseed = env.seed.wrapping_mul(1000).wrapping_add((env.shard * per + k) as u64);
            if env.shard >= env.tier.pick(4, nshards) {
                break;
            }
            trace_one(env, tseed, env.tier.pick(18, 40), out, &mut tt);
        }
        flush_trace(&tt, out);
    }
    fn replay(&self, env: &Env, case: &Value, out: &mut Out) {
        if case.get("syscall_trace").and_then(|b| b.as_bool()).unwrap_or(false) {
            let mut tt = crate::systrace::TraceTally::default();
            trace_one(env, case.get("trace_seed").and_then(|s| s.as_u64()).unwrap_or(1), case.get("rounds").and_then(|s| s.as_u64()).unwrap_or(18) as usize, out, &mut tt);
            flush_trace(&tt, out);
            return;
        }
        let Ok(o) = PhonOracle::new() else { return };
        let Some(spec) = case.get("cfg").and_then(CfgSpec::from_json) else { return };
        let steps: Vec<Step> = case
            .get("steps")
            .and_then(|s| s.as_array())
            .map(|a| {
                a.iter()
                    .map(|s| Step {
                        restart: s.get("restart_before").and_then(|b| b.as_bool()).unwrap_or(false),
                        lead: s.get("lead").and_then(|x| x.as_str()).unwrap_or("").to_string(),
                        word: s.get("word").and_then(|x| x.as_str()).unwrap_or("").to_string(),
                        trail: s.get("trail").and_then(|x| x.as_str()).unwrap_or("").to_string(),
                        pick: s.get("commit").and_then(|c| c.as_u64()).map(|k| k as usize),
                        overshoot: s.get("typed_past_and_erased").and_then(|c| c.as_u64()).unwrap_or(0) as usize,
                    })
                    .collect()
            })
            .unwrap_or_default();
        if steps.is_empty() {
            return;
        }
        let mut t = Tally::default();
        run_history(&o, spec, &steps, &env.root("c09"), true, out, &mut t);
        flush(&t, out);
    }
}
