//! C07 — phonetic candidates are ranked best-first by a fixed, explainable order.

use crate::base::*;
use crate::oracle::phon::{PhonOracle, Why};
use crate::out::*;
use crate::phonjudge::*;
use crate::phonkit::*;
use crate::prop::Prop;
use serde_json::{json, Value};
use std::collections::{HashMap, HashSet};

pub struct C07;

pub fn user_autocorrect() -> HashMap<String, String> {
    // overrides some bundled keys and adds new ones
    [("amar", "amaR"), ("ami", "tumi"), ("academy", "ekaDemi"), ("xyz", "onno"), ("kk", "kOk"), ("apni", "apni"), ("a", "A"), ("tmi", "tumi"), ("bd", "bangladesh"),
     // identity entries that override a bundled entry with another value
     ("atm", "atm"), ("computer", "computer"), ("ok", "ok"),
     // an empty replacement, and replacements outside ASCII and the Bengali block (taken literally)
     ("sob", ""), ("pi", "π"), ("caf", "café")]
        .iter()
        .map(|(k, v)| (k.to_string(), v.to_string()))
        .collect()
}

pub fn write_user_autocorrect(root: &std::path::Path, m: &HashMap<String, String>) {
    std::fs::create_dir_all(user_dir(root)).unwrap();
    std::fs::write(autocorrect_file(root), serde_json::to_string(m).unwrap()).unwrap();
}

fn specs() -> Vec<(CfgSpec, bool)> {
    let p = |o: u16| CfgSpec::new(Lay::Phonetic, O_PSUGG | o);
    vec![
        // (options that only the fixed-layout method reads ride along in three of them: they must not matter)
        (p(0), false), (p(O_ENG | O_FIXED_ONLY), false), (p(O_SQ), false), (p(O_ENG | O_SQ), false), (p(O_ANSI | O_FSUGG | O_TKAR | O_NUMPAD), false), (p(O_ENG | O_SQ | O_ANSI | O_FIXED_ONLY), false),
        (p(O_ENG), true), (p(O_SQ), true),
    ]
}

pub struct Ctxs {
    pub v: Vec<(Sess, bool)>,
    pub user: HashMap<String, String>,
}

pub fn mk(env: &Env, tag: &str) -> Result<Ctxs, Panic> {
    let root_a = env.root(&format!("{tag}-a"));
    let root_b = env.root(&format!("{tag}-b"));
    fresh_root(&root_a);
    fresh_root(&root_b);
    let user = user_autocorrect();
    write_user_autocorrect(&root_b, &user);
    let mut v = vec![];
    for (s, u) in specs() {
        v.push((Sess::new(s, if u { &root_b } else { &root_a })?, u));
    }
    Ok(Ctxs { v, user })
}

#[derive(Default)]
pub struct Tally {
    pub events: u64,
    pub lists: u64,
    pub c: HashMap<&'static str, (u64, u64)>,
}
impl Tally {
    pub fn clause(&mut self, name: &'static str, nonvacuous: bool) {
        let e = self.c.entry(name).or_insert((0, 0));
        e.0 += 1;
        if nonvacuous {
            e.1 += 1;
        }
    }
    pub fn flush(&self, out: &mut Out) {
        out.count("evaluations", self.events);
        out.count("lists_judged", self.lists);
        for (k, (ch, nv)) in &self.c {
            out.count(&format!("{k}.checked"), *ch);
            out.count(&format!("{k}.nonvacuous"), *nv);
        }
    }
}

fn shape(text: &str) -> String {
    let s: String = text.chars().map(|c| if c.is_ascii_alphabetic() { 'w' } else if c.is_ascii_digit() { '9' } else { c }).collect();
    let mut out = String::new();
    for c in s.chars() {
        if c == 'w' && out.ends_with('w') {
            continue;
        }
        out.push(c);
        if out.len() > 8 {
            break;
        }
    }
    out
}

pub fn judge(o: &mut PhonOracle, sess: &Sess, user: Option<&HashMap<String, String>>, text: &str, out: &mut Out, t: &mut Tally) {
    let spec = sess.spec;
    t.events += text.len() as u64;
    let case = || json!({"cfg": spec.to_json(), "text": text, "user_autocorrect": user.is_some()});
    let list = match type_finish(sess, text) {
        Ok(s) if !s.is_lonely() => s.get_suggestions().to_vec(),
        Ok(_) => return,
        Err(p) => {
            let _ = sess.finish();
            out.violation("ranking", format!("c07:panic@{}", p.loc), case(), "a ranked list".into(), format!("panic at {}: {}", p.loc, p.msg));
            return;
        }
    };
    t.lists += 1;
    let v = classify(o, &spec, text, &list, user);
    let sh = shape(text);
    out.distinct(fnv_str(&[text, &spec.opts.to_string(), if user.is_some() { "u" } else { "" }]));
    if out.want_sample() && t.lists % 2503 == 9 {
        let cl: Vec<String> = v.classes.iter().map(|c| format!("{c:?}")).collect();
        out.sample(json!({"typed": text, "options": spec.short(), "candidates": list, "classification": cl}));
    }
    let fail = |out: &mut Out, clause: &str, exp: String| {
        out.violation(clause, format!("c07:{clause}:shape={sh}:{}", spec.short()), case(), exp, format!("{list:?}"));
    };
    // (vi) no candidate text occurs twice
    let hs: HashSet<&String> = list.iter().collect();
    t.clause("no-duplicate", list.len() > 1);
    if hs.len() != list.len() {
        fail(out, "no-duplicate", "all candidate texts distinct".into());
    }
    // (i) auto-correct entry first
    let ac = o.autocorrect(&v.word, user);
    t.clause("autocorrect-first", ac.is_some());
    if let Some(a) = &ac {
        let exp = format!("{}{}{}", v.pre, a, v.post);
        if list.first() != Some(&exp) {
            fail(out, "autocorrect-first", format!("first candidate {exp:?} (auto-correct entry of {:?}{})", v.word, if user.map_or(false, |u| u.contains_key(&v.word)) { ", user list" } else { "" }));
        }
    }
    // (ii) dictionary-class candidates in non-decreasing key order; (iii) transliteration-only after them.
    // A candidate that is both a dictionary match and the transliteration may be read either way.
    let mut prev = -2i32;
    let mut distinct_keys: HashSet<i32> = HashSet::new();
    let mut translit_only_seen = false;
    let mut ndict = 0;
    let mut order_ok = true;
    let mut translit_ok = true;
    for c in &v.classes {
        if let Class::Explained(why) = c {
            let mut keys: Vec<i32> = why.iter().filter_map(|w| w.key()).collect();
            let is_translit = why.iter().any(|w| matches!(w, Why::Translit));
            keys.sort();
            keys.dedup();
            let admissible = keys.iter().find(|k| **k >= prev).copied();
            match (admissible, is_translit) {
                (Some(k), _) if !translit_only_seen => {
                    ndict += 1;
                    prev = k;
                    distinct_keys.insert(k);
                }
                (_, true) => translit_only_seen = true,
                (Some(_), false) => {
                    // a dictionary word after the plain transliteration
                    ndict += 1;
                    translit_ok = false;
                }
                (None, false) => {
                    ndict += 1;
                    order_ok = false;
                }
            }
        }
    }
    t.clause("distance-order", distinct_keys.len() >= 2);
    if !order_ok {
        fail(out, "distance-order", "dictionary words in non-decreasing edit distance from the transliteration (suffix-built words inherit their base's distance; auto-correct first)".into());
    }
    t.clause("translit-after-dictionary", translit_only_seen && ndict > 0);
    if !translit_ok {
        fail(out, "translit-after-dictionary", format!("the plain transliteration {:?} after every dictionary word", v.translit));
    }
    // (iv) English last
    if spec.english() && v.emoticon.is_none() {
        t.clause("english-last", list.len() > 1);
        if list.last().map(|s| s.as_str()) != Some(text) {
            fail(out, "english-last", format!("last candidate is the raw typed text {text:?}"));
        }
    }
    // (v) an emoji never precedes a dictionary word equal to the transliteration. The exact word counts as a
    // dictionary word when it is ranked among them, i.e. another dictionary-class candidate follows it
    // (otherwise it may be the plain transliteration, which legitimately comes after emoji).
    let first_emoji = v.classes.iter().position(|c| matches!(c, Class::NameEmoji(_) | Class::EmoticonEmoji));
    let is_dictish = |c: &Class| matches!(c, Class::Explained(w) if w.iter().any(|y| y.key().is_some()));
    let exact = list.iter().zip(&v.classes).position(|(x, c)| {
        is_dictish(c) && x.strip_prefix(v.pre.as_str()).and_then(|r| r.strip_suffix(v.post.as_str())) == Some(v.translit.as_str())
    });
    let mut judged = false;
    if let (Some(e), Some(x)) = (first_emoji, exact) {
        let followed = v.classes[x + 1..].iter().any(|c| matches!(c, Class::Explained(w) if w.iter().all(|y| y.key().is_some())));
        if followed {
            judged = true;
            if e < x {
                fail(out, "emoji-not-before-exact-word", format!("the dictionary word {:?} (equal to the transliteration) before any emoji", v.translit));
            }
        }
    }
    t.clause("emoji-not-before-exact-word", judged);
}

pub fn text_sources(o: &mut PhonOracle, env: &Env, rng: &mut Rng) -> Vec<String> {
    let thorough = env.tier == Tier::Thorough;
    let mut texts: Vec<String> = strings_upto(&all94(), 2);
    let sub: Vec<char> = SUB20.chars().collect();
    texts.extend(strings_upto(&sub, if thorough { 4 } else { 3 }));
    // auto-correct keys, alone, with suffixes, wrapped
    let mut sfx: Vec<String> = o.suffix.keys().cloned().collect();
    sfx.sort();
    let mut ack: Vec<String> = o.ac.keys().filter(|k| typeable(k)).cloned().collect();
    ack.sort();
    let per = if thorough { 12 } else { 2 };
    let mut si = 0usize;
    for k in &ack {
        texts.push(k.clone());
        for _ in 0..per {
            si += 37;
            texts.push(format!("{k}{}", sfx[si % sfx.len()]));
        }
        si += 11;
        let (l, r) = WRAPS[si % WRAPS.len()];
        texts.push(format!("{l}{k}{}{r}", sfx[si % sfx.len()]));
    }
    for k in user_autocorrect().keys() {
        texts.push(k.clone());
        texts.push(format!("{k}e"));
        texts.push(format!("\"{k}gulo\""));
    }
    // emoticons and emoji names
    let mut emo: Vec<String> = o.emoticons.keys().map(|s| s.to_string()).filter(|s| typeable(s)).collect();
    emo.sort();
    texts.extend(emo);
    let mut names: Vec<String> = o.emojis.keys().map(|s| s.to_string()).filter(|s| typeable(s)).collect();
    names.sort();
    for (i, n) in names.iter().enumerate() {
        texts.push(n.clone());
        let (l, r) = WRAPS[1 + i % (WRAPS.len() - 1)];
        texts.push(format!("{l}{n}{r}"));
    }
    // dictionary-guided spellings
    let mut r2 = Rng::new(env.seed ^ 0xD1C7);
    for (sp, _) in dict_guided(o, &mut r2, if thorough { 6000 } else { 500 }) {
        texts.push(sp.clone());
        si += 5;
        texts.push(format!("{sp}{}", sfx[si % sfx.len()]));
    }
    texts.retain(|t| typeable(t));
    texts.sort();
    texts.dedup();
    let _ = rng;
    texts
}

impl Prop for C07 {
    fn id(&self) -> &'static str {
        "C07"
    }
    fn rule(&self) -> String {
        "typed texts: all 8930 strings of length <= 2 over the 94 typeable characters; the 20-symbol splitter alphabet to length 3 (quick) / 4 (thorough); all 2108 bundled auto-correct keys alone, with strided suffix keys, wrapped; \
         user auto-correct keys; all emoticons and emoji names bare and wrapped; dictionary-guided spellings (romanised dictionary words kept when their Avro pattern matches) with and without a suffix; random strings up to 12. \
         Each text is typed key by key in 1 (quick, rotating) / all 8 (thorough) of 8 contexts (English/smart-quote/ANSI subsets, two of them over a user auto-correct file that overrides bundled keys) and the returned list is classified \
         candidate by candidate by O-dict. distinct_nontrivial = distinct (text, options, user-list) triples whose list was judged."
            .into()
    }
    fn assumptions(&self) -> Vec<String> {
        vec![
            "O-dict: a candidate is a dictionary match iff it is a member of dictionary.json (any table) and the okkhor regex of the typed word matches it; distance is the harness's own Levenshtein over code points".into(),
            "where a candidate has several explanations the check only asks that some assignment of keys is non-decreasing".into(),
            "emoticon inputs are exempt from the English-last clause (covered by C18)".into(),
        ]
    }
    fn shards(&self, tier: Tier) -> usize {
        tier.pick(16, 64)
    }
    fn minima(&self, _tier: Tier) -> Vec<(&'static str, u64)> {
        vec![
            ("lists_judged", 20_000), ("autocorrect-first.nonvacuous", 1_000), ("distance-order.nonvacuous", 1_000), ("translit-after-dictionary.nonvacuous", 1_000),
            ("english-last.nonvacuous", 2_000), ("emoji-not-before-exact-word.nonvacuous", 100), ("no-duplicate.nonvacuous", 10_000),
        ]
    }
    fn run_shard(&self, env: &Env, out: &mut Out) {
        let mut o = match PhonOracle::new() {
            Ok(o) => o,
            Err(e) => {
                out.note(format!("oracle: {e}"));
                return;
            }
        };
        let c = match mk(env, "c07") {
            Ok(c) => c,
            Err(p) => {
                out.violation("setup", format!("c07:setup-panic@{}", p.loc), json!({}), "context creation".into(), p.msg);
                return;
            }
        };
        let mut rng = env.rng("c07");
        let texts = text_sources(&mut o, env, &mut rng);
        let mut t = Tally::default();
        let nctx = c.v.len();
        let per = env.tier.pick(1, nctx);
        for (i, tx) in texts.iter().enumerate() {
            if !env.mine(i) {
                continue;
            }
            for j in 0..per {
                let (sess, u) = &c.v[(i / env.nshards + j * 3) % nctx];
                out.begin_case(|| json!({"cfg": sess.spec.to_json(), "text": tx, "user_autocorrect": u}));
                judge(&mut o, sess, if *u { Some(&c.user) } else { None }, tx, out, &mut t);
            }
            // texts whose word part (or a base of it) is a key of the user list always go through the contexts that have the list
            let word = crate::oracle::phon::split(tx, false).1;
            if c.user.keys().any(|k| word.starts_with(k.as_str())) && word.len() <= 12 {
                for (sess, u) in c.v.iter().filter(|(_, u)| *u) {
                    out.begin_case(|| json!({"cfg": sess.spec.to_json(), "text": tx, "user_autocorrect": u}));
                    judge(&mut o, sess, Some(&c.user), tx, out, &mut t);
                }
            }
        }
        let nrand = env.tier.pick(1_500, 30_000);
        for i in 0..nrand {
            let tx = random_text(&mut rng, 12);
            let (sess, u) = &c.v[i % nctx];
            out.begin_case(|| json!({"cfg": sess.spec.to_json(), "text": tx, "user_autocorrect": u}));
            judge(&mut o, sess, if *u { Some(&c.user) } else { None }, &tx, out, &mut t);
        }
        t.flush(out);
    }
    fn replay(&self, env: &Env, case: &Value, out: &mut Out) {
        let Ok(mut o) = PhonOracle::new() else { return };
        let Ok(c) = mk(env, "c07") else { return };
        let Some(spec) = case.get("cfg").and_then(CfgSpec::from_json) else { return };
        let u = case.get("user_autocorrect").and_then(|b| b.as_bool()).unwrap_or(false);
        let text = case.get("text").and_then(|t| t.as_str()).unwrap_or("");
        let mut t = Tally::default();
        // find (or create) the matching context
        let root = env.root(if u { "c07-b" } else { "c07-a" });
        let Ok(sess) = Sess::new(spec, &root) else { return };
        judge(&mut o, &sess, if u { Some(&c.user) } else { None }, text, out, &mut t);
        t.flush(out);
    }
}
