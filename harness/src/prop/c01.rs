//! C01 — no in-contract sequence of API calls can crash the engine.
//! catch_unwind + panic-location hook around every call; worker death is detected by the orchestrator;
//! a per-call CPU budget restates "no unbounded blow-up in time" as bounded progress.

use crate::base::*;
use crate::explore::*;
use crate::oracle::layout::LayoutOracle;
use crate::out::*;
use crate::prop::Prop;
use serde_json::{json, Value};

pub struct C01;

/// CPU budget for one call on a composition of <= 256 characters.
pub const BUDGET_MS: u64 = 20_000;
/// "returns, eventually" budget for the long-composition stress.
pub const STRESS_BUDGET_MS: u64 = 120_000;

const MODS: [u8; 8] = [0, 1, 2, 3, 4, 0x80, 0xFD, 0xFE];

#[derive(Default)]
pub struct Tally {
    pub calls: u64,
    pub histories: u64,
    pub by_kind: [u64; 7],
    pub max_cpu_us: u64,
    pub max_len: u64,
    pub learned_commits: u64,
    pub contexts: u64,
    layout_values_inside_words: u64,
}

fn kind_idx(e: &Ev) -> usize {
    match e {
        Ev::Key(..) => 0,
        Ev::Bs => 1,
        Ev::CtrlBs => 2,
        Ev::Commit(_) => 3,
        Ev::Finish => 4,
        Ev::Update(_) => 5,
        Ev::NewCtx => 6,
    }
}
const KIND_NAMES: [&str; 7] = ["key", "backspace", "ctrl_backspace", "commit", "finish", "update_engine", "new_context"];

pub fn flush(t: &Tally, out: &mut Out) {
    out.count("evaluations", t.calls);
    out.count("histories", t.histories);
    out.count("contexts_created", t.contexts);
    out.count("commits_that_learned", t.learned_commits);
    out.count("layout_values_typed_inside_a_word_with_the_list_on", t.layout_values_inside_words);
    for (i, n) in t.by_kind.iter().enumerate() {
        out.count(&format!("calls.{}", KIND_NAMES[i]), *n);
    }
    out.max("cpu_us_per_call", t.max_cpu_us);
    out.max("composition_length", t.max_len);
}

/// Judge one executed step for C01. Returns false when the history must stop (panic).
pub fn judge_step(ex: &Exec, st: &Step, budget_ms: u64, case: &dyn Fn() -> Value, out: &mut Out, t: &mut Tally) -> bool {
    t.calls += 1;
    t.by_kind[kind_idx(&st.ev)] += 1;
    t.max_cpu_us = t.max_cpu_us.max(st.cpu_ns / 1000);
    let method = if ex.sess.spec.lay.is_fixed() { "fixed" } else { "phonetic" };
    if st.cpu_ns / 1_000_000 > budget_ms {
        out.violation("time-budget", format!("c01:slow:{method}:{}", KIND_NAMES[kind_idx(&st.ev)]), case(),
                      format!("the call returns within {budget_ms} ms of CPU time"), format!("{} ms", st.cpu_ns / 1_000_000));
    }
    if let Err(p) = &st.result {
        let what = match &st.ev {
            Ev::Key(k, _, _) => format!("key:{}", keydef(*k).map(|d| d.name).unwrap_or("?")),
            e => KIND_NAMES[kind_idx(e)].to_string(),
        };
        // signature: panic site + method (+ the key for the two keypad codes, which are a class of their own)
        let keypart = match &st.ev {
            Ev::Key(k, _, _) if keydef(*k).map_or(false, |d| d.ch.is_none()) => format!(":{what}"),
            _ => String::new(),
        };
        out.violation("no-panic", format!("c01:panic@{}:{method}{keypart}", p.loc), case(), format!("{what} returns normally"), format!("panic at {}: {}", p.loc, p.msg));
        return false;
    }
    true
}

/// Run a fixed event list (events that are out of contract in the reached state are skipped).
pub fn run_events(ex: &mut Exec, files: &UserFiles, evs: &[Ev], budget_ms: u64, out: &mut Out, t: &mut Tally) {
    t.histories += 1;
    let spec0 = ex.sess.spec;
    let mut done: Vec<Ev> = Vec::with_capacity(evs.len());
    for e in evs {
        if ex.dead {
            break;
        }
        // Commit placeholders: usize::MAX = highlighted index, usize::MAX-1 = another valid index (learning commit)
        let e = match e {
            Ev::Commit(i) if *i >= usize::MAX - 1 => match &ex.screen {
                Some(rs) if rs.commit_len() > 0 => {
                    let h = (ex.highlight as usize).min(rs.commit_len() - 1);
                    if *i == usize::MAX {
                        Ev::Commit(h)
                    } else {
                        Ev::Commit((h + 1) % rs.commit_len())
                    }
                }
                _ => continue,
            },
            // protocol selection byte placeholder 0xFF = the highlighted index
            Ev::Key(k, m, 0xFF) => Ev::Key(*k, *m, ex.highlight),
            other => other.clone(),
        };
        if !ex.in_contract(&e) {
            continue;
        }
        if let Ev::Commit(i) = &e {
            if *i != ex.highlight as usize {
                t.learned_commits += 1;
            }
        }
        done.push(e.clone());
        let st = ex.apply(&e);
        t.max_len = t.max_len.max(ex.shadow.len() as u64);
        let ok = judge_step(ex, &st, budget_ms, &|| trace_json(&spec0, files, &done), out, t);
        if !ok {
            break;
        }
    }
}

fn random_spec(rng: &mut Rng) -> CfgSpec {
    let lay = Lay::ALL[rng.below(3)];
    let mut opts = (rng.next() & O_ALL as u64) as u16;
    // suggestions on more often than not
    if rng.chance(2, 3) {
        opts |= if lay.is_fixed() { O_FSUGG } else { O_PSUGG };
    }
    CfgSpec::new(lay, opts)
}

fn snapshot(root: &std::path::Path) -> UserFiles {
    UserFiles { selections: std::fs::read_to_string(selection_file(root)).ok(), autocorrect: std::fs::read_to_string(autocorrect_file(root)).ok() }
}

/// Event alphabet for the exhaustive short histories.
fn alphabet(lay: Lay, lo: Option<&LayoutOracle>) -> Vec<Ev> {
    let mut v: Vec<Ev> = vec![Ev::Bs, Ev::CtrlBs, Ev::Commit(usize::MAX), Ev::Commit(usize::MAX - 1), Ev::Finish];
    let kp_enter = keys().iter().find(|k| k.name == "VC_KP_ENTER").unwrap().code;
    let kp_equals = keys().iter().find(|k| k.name == "VC_KP_EQUALS").unwrap().code;
    v.push(Ev::Key(kp_enter, 0, 0xFF));
    if lay.is_fixed() {
        let lo = lo.unwrap();
        for val in ["ক", "ি", "\u{09CD}", "া", ":", "\u{09C4}", "\u{09B0}\u{09CD}", "\u{09CD}\u{09AF}", ")"] {
            if let Some((k, m)) = lo.key_for_value(val) {
                v.push(Ev::Key(k, m, 0xFF));
            }
        }
        // a key with an empty assignment and a number-pad key
        v.push(Ev::Key(kc('q'), 2, 0xFF));
        v.push(Ev::Key(keys().iter().find(|k| k.name == "VC_KP_1").unwrap().code, 0, 0xFF));
    } else {
        v.push(Ev::Key(kp_equals, 0, 0xFF));
        for c in ['a', 'm', 'i', 'e', ':', ')', '`', '\\', 'O'] {
            v.push(Ev::Key(kc(c), 0, 0xFF));
        }
    }
    v
}

fn corner_specs(lay: Lay) -> Vec<CfgSpec> {
    let s = if lay.is_fixed() { O_FSUGG } else { O_PSUGG };
    vec![
        CfgSpec::new(lay, 0),
        CfgSpec::new(lay, O_ALL),
        CfgSpec::new(lay, s | O_SQ | O_ENG),
        CfgSpec::new(lay, s | O_REPH | O_KARORDER | O_VOWEL | O_ENG),
        CfgSpec::new(lay, O_ALL & !O_ANSI),
    ]
}

impl Prop for C01 {
    fn id(&self) -> &'static str {
        "C01"
    }
    fn rule(&self) -> String {
        "(a) every published key code x 8 modifier patterns, from idle and from a one-character composition, each followed by one of {finish, commit, ctrl-backspace, backspace}, under a pairwise-covering set of the 11 options (quick) / all 2048 option masks (thorough) x 3 layouts, options switched with update_engine on the idle context; \
         (b) every history of length <= 3 (quick) / 4 (thorough) over a 16-event alphabet per method (keypad Enter/Equals, reph key, vowel sign, hasanta, unassigned key, : ) ` \\, backspace, ctrl-backspace, commit of the highlighted index, commit of another index, finish) under 5 corner configurations, \
         the learned-selection file persisting across histories; (b2) on the synthetic layout every history of length <= 5 (4 with suggestions on) over a reduced 9-event alphabet with every composition helper on; (c) random histories of <= 64 events over all 111 keys with arbitrary modifier and selection bytes, commits inside the list on screen, update_engine (any layout/options) while idle and context restarts over the same user directory; \
         (e) every ordered pair of the 111 published keys followed by a third key, a backspace, the second key again and a commit or finish, under two corner configurations per layout; (d) long compositions: one letter / one Avro pattern repeated to 256 characters with suggestions on (20 s CPU budget per call) and to 2300 characters (thorough; 120 s budget). \
         distinct_nontrivial = distinct (configuration, event kind, rendered result) triples observed."
            .into()
    }
    fn assumptions(&self) -> Vec<String> {
        vec![
            "in-contract generation: commit only while a list (or single string) returned by the previous key/backspace/commit is on screen and with an index below its length; update_engine only while ongoing_input_session() is false".into(),
            "the time clause is restated as bounded progress: 20 s of thread CPU time per call for compositions up to 256 characters; a watchdog thread ends a worker whose call exceeds the budget and the case is replayed alone".into(),
            "a panic is observed under catch_unwind at the Rust API (it would be an abort at the extern \"C\" boundary)".into(),
        ]
    }
    fn shards(&self, tier: Tier) -> usize {
        tier.pick(16, 64)
    }
    fn minima(&self, tier: Tier) -> Vec<(&'static str, u64)> {
        vec![
            ("calls.key", tier.pick(300_000, 5_000_000)), ("calls.backspace", 10_000), ("calls.ctrl_backspace", 10_000), ("calls.commit", 10_000), ("calls.finish", 10_000),
            ("calls.update_engine", 300), ("calls.new_context", 100), ("commits_that_learned", 1_000),
        ]
    }
    fn run_shard(&self, env: &Env, out: &mut Out) {
        start_call_watchdog();
        set_call_budget_ms(BUDGET_MS + 5_000);
        let mut t = Tally::default();
        let mut rng = env.rng("c01");
        let thorough = env.tier == Tier::Thorough;
        let root = env.root("c01");
        fresh_root(&root);
        let nofiles = UserFiles::default();

        // ---- (a) single events under many option masks
        let masks: Vec<u16> = if thorough { (0..=O_ALL).collect() } else { pairwise_opts() };
        let mut item = 0usize;
        for lay in Lay::ALL {
            let mut ex: Option<Exec> = None;
            let prek = if lay.is_fixed() { kc('k') } else { kc('a') };
            for &mask in &masks {
                let mine = env.mine(item);
                item += 1;
                if !mine {
                    continue;
                }
                let spec = CfgSpec::new(lay, mask);
                if ex.is_none() {
                    match Exec::new(spec, &root) {
                        Ok(e) => {
                            ex = Some(e);
                            t.contexts += 1;
                        }
                        Err(p) => {
                            out.violation("no-panic", format!("c01:panic@{}:new-context", p.loc), json!({"cfg": spec.to_json()}), "context creation".into(), p.msg);
                            break;
                        }
                    }
                }
                let e = ex.as_mut().unwrap();
                let mut evs: Vec<Ev> = vec![Ev::Update(spec)];
                let mut n = 0usize;
                for k in keys() {
                    for &m in &MODS {
                        n += 1;
                        let term = match n % 4 {
                            0 => Ev::Finish,
                            1 => Ev::Commit(usize::MAX),
                            2 => Ev::CtrlBs,
                            _ => Ev::Bs,
                        };
                        evs.push(Ev::Key(k.code, m, (n % 7) as u8));
                        evs.push(term.clone());
                        evs.push(Ev::Finish);
                        evs.push(Ev::Key(prek, 0, 0));
                        evs.push(Ev::Key(k.code, m, 0xFF));
                        evs.push(term);
                        evs.push(Ev::Finish);
                    }
                }
                out.begin_case(|| trace_json(&spec, &nofiles, &evs));
                run_events(e, &nofiles, &evs, BUDGET_MS, out, &mut t);
                out.distinct(fnv_str(&["a", lay.name(), &mask.to_string()]));
                if e.dead {
                    ex = None;
                }
            }
        }

        // ---- (b) exhaustive short histories, learned store persisting
        let maxlen = env.tier.pick(3, 4);
        for lay in Lay::ALL {
            let lo = if lay.is_fixed() { LayoutOracle::load(lay).ok() } else { None };
            let alpha = alphabet(lay, lo.as_ref());
            let n = alpha.len();
            for spec in corner_specs(lay) {
                for first in 0..n {
                    let mine = env.mine(item);
                    item += 1;
                    if !mine {
                        continue;
                    }
                    let Ok(mut ex) = Exec::new(spec, &root) else { continue };
                    t.contexts += 1;
                    let mut files = snapshot(&root);
                    let mut idx = vec![0usize; maxlen];
                    idx[0] = first;
                    loop {
                        let mut evs: Vec<Ev> = idx.iter().map(|&i| alpha[i].clone()).collect();
                        evs.push(Ev::Finish);
                        let learned_before = t.learned_commits;
                        out.begin_case(|| trace_json(&spec, &files, &evs));
                        run_events(&mut ex, &files, &evs, BUDGET_MS, out, &mut t);
                        if t.learned_commits != learned_before {
                            files = snapshot(&root);
                        }
                        if ex.dead {
                            match Exec::new(spec, &root) {
                                Ok(e) => ex = e,
                                Err(_) => break,
                            }
                        }
                        if !crate::fixedkit::next_seq(&mut idx, n) {
                            break;
                        }
                    }
                    out.distinct(fnv_str(&["b", &spec.short(), &first.to_string()]));
                }
            }
        }

        // ---- (b2) synthetic layout: every history of length <= 5 over a reduced 9-event alphabet (consonant, hasanta, ASCII comma,
        // reph key, left-standing sign, ZWNJ, zo-fola, chandrabindu, backspace) with every composition helper on
        if let Ok(lo) = LayoutOracle::load(Lay::Verif) {
            let mut alpha: Vec<Ev> = vec![Ev::Bs];
            for val in ["ক", "\u{09CD}", ",", "\u{09B0}\u{09CD}", "ি", "\u{200C}", "\u{09CD}\u{09AF}", "\u{0981}"] {
                if let Some((k, m)) = lo.key_for_value(val) {
                    alpha.push(Ev::Key(k, m, 0xFF));
                }
            }
            let n = alpha.len();
            let helpers = O_VOWEL | O_CHANDRA | O_TKAR | O_REPH | O_NUMPAD;
            for spec in [CfgSpec::new(Lay::Verif, helpers), CfgSpec::new(Lay::Verif, helpers | O_KARORDER), CfgSpec::new(Lay::Verif, helpers | O_FSUGG | O_ENG | O_SQ)] {
                let len = if spec.has(O_FSUGG) { 4 } else { 5 };
                for first in 0..n {
                    let mine = env.mine(item);
                    item += 1;
                    if !mine {
                        continue;
                    }
                    let Ok(mut ex) = Exec::new(spec, &root) else { continue };
                    t.contexts += 1;
                    let mut idx = vec![0usize; len];
                    idx[0] = first;
                    loop {
                        let mut evs: Vec<Ev> = idx.iter().map(|&i| alpha[i].clone()).collect();
                        evs.push(Ev::Finish);
                        out.begin_case(|| trace_json(&spec, &nofiles, &evs));
                        run_events(&mut ex, &nofiles, &evs, BUDGET_MS, out, &mut t);
                        if ex.dead {
                            match Exec::new(spec, &root) {
                                Ok(e) => ex = e,
                                Err(_) => break,
                            }
                        }
                        if !crate::fixedkit::next_seq(&mut idx, n) {
                            break;
                        }
                    }
                    out.distinct(fnv_str(&["b2", &spec.short(), &first.to_string()]));
                }
            }
        }

        // ---- (e) every ordered pair of published keys (then a third key, backspaces and a commit), two corner configurations per layout
        for lay in Lay::ALL {
            let sg = if lay.is_fixed() { O_FSUGG } else { O_PSUGG };
            for spec in [CfgSpec::new(lay, sg | O_ENG | O_SQ | O_NUMPAD | O_VOWEL | O_KARORDER), CfgSpec::new(lay, O_ALL & !O_ANSI & !O_KARORDER)] {
                let mut ex: Option<Exec> = None;
                for (i, k1) in keys().iter().enumerate() {
                    let mine = env.mine(item);
                    item += 1;
                    if !mine {
                        continue;
                    }
                    if ex.as_ref().map_or(true, |e| e.dead) {
                        ex = Exec::new(spec, &root).ok();
                        t.contexts += 1;
                    }
                    let Some(e) = ex.as_mut() else { break };
                    let mut evs: Vec<Ev> = Vec::with_capacity(keys().len() * 8);
                    for (j, k2) in keys().iter().enumerate() {
                        let k3 = &keys()[(i * 7 + j * 13) % keys().len()];
                        let alt = if (i + j) % 5 == 0 { 2 } else { 0 };
                        evs.push(Ev::Key(k1.code, 0, 0xFF));
                        evs.push(Ev::Key(k2.code, alt, 0xFF));
                        evs.push(Ev::Key(k3.code, 0, 0xFF));
                        evs.push(Ev::Bs);
                        evs.push(Ev::Key(k2.code, 0, 0xFF));
                        evs.push(if j % 2 == 0 { Ev::Commit(usize::MAX) } else { Ev::Finish });
                        evs.push(Ev::Finish);
                    }
                    out.begin_case(|| trace_json(&spec, &nofiles, &evs));
                    run_events(e, &nofiles, &evs, BUDGET_MS, out, &mut t);
                    out.distinct(fnv_str(&["e", &spec.short(), k1.name]));
                }
            }
        }

        // ---- (c) random histories
        let nhist = env.tier.pick(250, 600); // per shard
        let allkeys: Vec<u16> = keys().iter().map(|k| k.code).collect();
        for _h in 0..nhist {
            let spec = random_spec(&mut rng);
            let files = snapshot(&root);
            let mut ex = match Exec::new(spec, &root) {
                Ok(e) => e,
                Err(p) => {
                    out.violation("no-panic", format!("c01:panic@{}:new-context", p.loc), trace_json(&spec, &files, &[]), "context creation".into(), p.msg);
                    // a store that kills start-up would poison every later history of this shard
                    fresh_root(&root);
                    continue;
                }
            };
            t.contexts += 1;
            let len = rng.range(8, 64);
            let arbitrary_sel = rng.chance(1, 2);
            let mut evs: Vec<Ev> = Vec::with_capacity(len);
            for _ in 0..len {
                let r = rng.below(100);
                let e = if r < 62 {
                    let k = if rng.chance(3, 4) { kc(*rng.pick(&"aeioukgtdnrsmhlbcjyzONTDS:;.,`'\"()\\-^1$".chars().collect::<Vec<_>>())) } else { *rng.pick(&allkeys) };
                    let m = if rng.chance(2, 3) { 0 } else { *rng.pick(&[1u8, 2, 3, 4, 0x80, 0xFE]) };
                    let s = if arbitrary_sel { (rng.next() & 0xFF) as u8 } else { 0xFF };
                    Ev::Key(k, m, if s == 0xFF && arbitrary_sel { 0xFE } else { s })
                } else if r < 72 {
                    Ev::Bs
                } else if r < 75 {
                    Ev::CtrlBs
                } else if r < 83 {
                    Ev::Commit(usize::MAX)
                } else if r < 90 {
                    Ev::Commit(usize::MAX - 1)
                } else if r < 94 {
                    Ev::Finish
                } else if r < 97 {
                    Ev::Update(random_spec(&mut rng))
                } else {
                    Ev::NewCtx
                };
                evs.push(e);
            }
            out.begin_case(|| trace_json(&spec, &files, &evs));
            run_events(&mut ex, &files, &evs, BUDGET_MS, out, &mut t);
            out.distinct(fnv_str(&["c", &spec.short(), &ex.steps.to_string(), &ex.shadow]));
            if out.want_sample() && _h % 97 == 3 {
                out.sample(trace_json(&spec, &files, &evs[..evs.len().min(24)]));
            }
        }

        // ---- (c2) every value of the layout file inside a word, candidate list on: consonant, the value, consonant,
        // backspace (a character that is special to the dictionary search - a back-slash, a bracket, a caret - or that is
        // several bytes long must not break the list that is built from the composed text)
        for (li, lay) in [Lay::Probhat, Lay::Verif].into_iter().enumerate() {
            let Ok(lo) = LayoutOracle::load(lay) else { continue };
            let (Some(k1), Some(k2)) = (lo.key_for_value("ক"), lo.key_for_value("খ")) else { continue };
            let mut vals: Vec<&String> = lo.map.values().filter(|v| !v.is_empty()).collect();
            vals.sort();
            vals.dedup();
            for (vi, v) in vals.iter().enumerate() {
                if !env.mine(vi + li * 7 + 3) {
                    continue;
                }
                let Some(kv) = lo.key_for_value(v) else { continue };
                for opts in [O_FSUGG | O_ENG, O_FSUGG | O_SQ | O_TKAR | O_VOWEL | O_ANSI] {
                    let spec = CfgSpec::new(lay, opts);
                    let Ok(mut ex) = Exec::new(spec, &root) else { continue };
                    t.contexts += 1;
                    let evs = vec![Ev::Key(k1.0, k1.1, 0xFF), Ev::Key(kv.0, kv.1, 0xFF), Ev::Key(k2.0, k2.1, 0xFF), Ev::Key(kv.0, kv.1, 0xFF), Ev::Bs, Ev::Commit(usize::MAX)];
                    out.begin_case(|| json!({"cfg": spec.to_json(), "events": evs_to_json(&evs)}));
                    run_events(&mut ex, &nofiles, &evs, BUDGET_MS, out, &mut t);
                    out.distinct(fnv_str(&["c2", lay.name(), v, &opts.to_string()]));
                    t.layout_values_inside_words += 1;
                }
            }
        }

        // ---- (d) long compositions (shard 0..k each take one pattern)
        let patterns = ["o", "a", "ng", "kkh", "rri", "OI", "x", ".", "`", "ngkkh", "k:", "a'"];
        for (pi, pat) in patterns.iter().enumerate() {
            if !env.mine(pi) {
                continue;
            }
            let target = env.tier.pick(128, 256);
            for opts in [O_PSUGG | O_ENG | O_SQ, 0] {
                let spec = CfgSpec::new(Lay::Phonetic, opts);
                let Ok(mut ex) = Exec::new(spec, &root) else { continue };
                t.contexts += 1;
                let mut evs: Vec<Ev> = vec![];
                let chars: Vec<char> = pat.chars().collect();
                for i in 0..target {
                    evs.push(Ev::Key(kc(chars[i % chars.len()]), 0, 0xFF));
                }
                for _ in 0..10 {
                    evs.push(Ev::Bs);
                }
                evs.push(Ev::Commit(usize::MAX));
                out.begin_case(|| json!({"cfg": spec.to_json(), "long_composition": {"pattern": pat, "length": target}}));
                run_events(&mut ex, &nofiles, &evs, BUDGET_MS, out, &mut t);
                out.distinct(fnv_str(&["d", pat, &opts.to_string()]));
            }
        }
        // ---- (d2) suffix chains: every key of the suffix table of one or two letters repeated to 64 (quick) / 96 (thorough)
        // characters, with suggestions on (a word that can be cut into base + suffix in several ways at every position is
        // where the candidate search and the learned-choice lookup would blow up)
        {
            let mut sfx: Vec<String> = std::fs::read_to_string(format!("{REPO}/data/suffix.json"))
                .ok()
                .and_then(|s| serde_json::from_str::<std::collections::HashMap<String, String>>(&s).ok())
                .map(|m| m.into_keys().filter(|k| k.len() <= 2 && k.chars().all(|c| c.is_ascii_lowercase())).collect())
                .unwrap_or_default();
            sfx.sort();
            out.max("suffix_keys_chained", sfx.len() as u64);
            for (pi, pat) in sfx.iter().enumerate() {
                if !env.mine(pi + 31) {
                    continue;
                }
                let target = env.tier.pick(64, 96);
                let spec = CfgSpec::new(Lay::Phonetic, O_PSUGG);
                let Ok(mut ex) = Exec::new(spec, &root) else { continue };
                t.contexts += 1;
                let chars: Vec<char> = pat.chars().collect();
                let mut evs: Vec<Ev> = (0..target).map(|i| Ev::Key(kc(chars[i % chars.len()]), 0, 0xFF)).collect();
                evs.push(Ev::Bs);
                evs.push(Ev::Commit(usize::MAX));
                out.begin_case(|| json!({"cfg": spec.to_json(), "long_composition": {"pattern": pat, "length": target}}));
                run_events(&mut ex, &nofiles, &evs, BUDGET_MS, out, &mut t);
                out.distinct(fnv_str(&["d2", pat]));
            }
        }
        if thorough {
            set_call_budget_ms(STRESS_BUDGET_MS + 10_000);
            for (pi, pat) in ["ngkkh", "k", "1", "."].iter().enumerate() {
                if !env.mine(pi + 17) {
                    continue;
                }
                let spec = CfgSpec::new(Lay::Phonetic, O_PSUGG | O_ENG);
                let Ok(mut ex) = Exec::new(spec, &root) else { continue };
                let chars: Vec<char> = pat.chars().collect();
                let evs: Vec<Ev> = (0..2300).map(|i| Ev::Key(kc(chars[i % chars.len()]), 0, 0xFF)).chain([Ev::Bs, Ev::Finish]).collect();
                out.begin_case(|| json!({"cfg": spec.to_json(), "long_composition": {"pattern": pat, "length": 2300}}));
                run_events(&mut ex, &nofiles, &evs, STRESS_BUDGET_MS, out, &mut t);
            }
            // fixed method: long composition with suggestions on
            if env.mine(23) {
                let spec = CfgSpec::new(Lay::Probhat, O_FSUGG | O_ENG | O_TKAR);
                if let Ok(mut ex) = Exec::new(spec, &root) {
                    let evs: Vec<Ev> = (0..2300).map(|i| Ev::Key(kc(['k', 'a', 'r', '/'][i % 4]), 0, 0)).chain([Ev::Bs, Ev::Finish]).collect();
                    run_events(&mut ex, &nofiles, &evs, STRESS_BUDGET_MS, out, &mut t);
                }
            }
        }
        flush(&t, out);
    }
    fn replay(&self, env: &Env, case: &Value, out: &mut Out) {
        start_call_watchdog();
        set_call_budget_ms(STRESS_BUDGET_MS + 10_000);
        let Some(spec) = case.get("cfg").and_then(CfgSpec::from_json) else { return };
        let root = env.root("c01");
        let mut t = Tally::default();
        if let Some(lc) = case.get("long_composition") {
            fresh_root(&root);
            let pat: Vec<char> = lc.get("pattern").and_then(|p| p.as_str()).unwrap_or("o").chars().collect();
            let len = lc.get("length").and_then(|l| l.as_u64()).unwrap_or(256) as usize;
            let Ok(mut ex) = Exec::new(spec, &root) else { return };
            let evs: Vec<Ev> = (0..len).map(|i| Ev::Key(kc(pat[i % pat.len()]), 0, 0xFF)).chain([Ev::Bs, Ev::Finish]).collect();
            run_events(&mut ex, &UserFiles::default(), &evs, if len > 256 { STRESS_BUDGET_MS } else { BUDGET_MS }, out, &mut t);
        } else {
            let files = case.get("user_files").map(UserFiles::from_json).unwrap_or_default();
            files.install(&root);
            let Some(evs) = case.get("events").and_then(evs_from_json) else { return };
            match Exec::new(spec, &root) {
                Ok(mut ex) => run_events(&mut ex, &files, &evs, BUDGET_MS, out, &mut t),
                Err(p) => out.violation("no-panic", format!("c01:panic@{}:new-context", p.loc), case.clone(), "context creation".into(), p.msg),
            }
        }
        flush(&t, out);
    }
}
