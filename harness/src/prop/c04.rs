//! C04 — a fixed-layout key emits exactly the text the layout file assigns to it.
//! Complete enumeration of key code x modifier x numpad x layout x {idle, after one character}.

use crate::base::*;
use crate::oracle::layout::LayoutOracle;
use crate::out::*;
use crate::prop::Prop;
use serde_json::{json, Value};

pub struct C04;

const MODS: [u8; 9] = [0, 1, 2, 3, 4, 5, 0x80, 0xFE, 0xFF];

struct Setup {
    sess: Sess,
    oracle: LayoutOracle,
    numpad: bool,
    sugg: bool,
    /// keys that type a one-character prefix after which no rewrite rule applies with all helpers off
    /// (a consonant, an independent vowel, an ASCII punctuation mark), and the prefix text
    pres: Vec<(u16, u8, String)>,
}

fn setups(env: &Env, sugg: bool) -> Result<Vec<Setup>, String> {
    let mut v = vec![];
    for lay in [Lay::Probhat, Lay::Verif, Lay::Relative] {
        for numpad in [false, true] {
            let mut opts = 0;
            if numpad {
                opts |= O_NUMPAD;
            }
            if sugg {
                opts |= O_FSUGG;
            }
            let spec = CfgSpec::new(lay, opts);
            let root = env.root(&format!("c04-{}-{}-{}", lay.name(), numpad, sugg));
            fresh_root(&root);
            let sess = Sess::new(spec, &root).map_err(|p| format!("context creation panicked at {}: {}", p.loc, p.msg))?;
            let oracle = LayoutOracle::load(lay)?;
            let mut pres = vec![];
            for p in ["ক", "অ", "!", "\u{09CD}", "র", "\u{09C7}", "\u{09BE}", "\u{0981}"] {
                let (pk, pm) = oracle.key_for_value(p).ok_or(format!("layout has no key for {p}"))?;
                pres.push((pk, pm, p.to_string()));
            }
            v.push(Setup { sess, oracle, numpad, sugg, pres });
        }
    }
    Ok(v)
}

fn case_json(s: &Setup, with_pre: usize, code: u16, m: u8) -> Value {
    json!({"cfg": s.sess.spec.to_json(), "after_one_char": if with_pre == 0 { Value::Null } else { json!(s.pres[with_pre - 1].2) }, "prefix_index": with_pre, "code": code, "modifier": m,
           "key": keydef(code).map(|k| k.name).unwrap_or("(not in riti.h)")})
}

/// Text shown by a returned suggestion ("" for the empty suggestion).
fn shown(s: &riti::suggestion::Suggestion, sugg: bool) -> Result<String, String> {
    if s.is_lonely() {
        Ok(s.get_lonely_suggestion().to_string())
    } else if sugg {
        if s.len() == 0 {
            return Err("empty list".into());
        }
        Ok(s.get_suggestions()[0].clone())
    } else {
        Err("list returned with suggestions off".into())
    }
}

struct Tally {
    events: u64,
    emitted: u64,
    inert_assigned_empty: u64,
    inert_out_of_table: u64,
    numpad_off_inert: u64,
    numpad_on_emit: u64,
    altgr_plane: u64,
    shift_ignored: u64,
    unspecified: u64,
}

fn judge(s: &Setup, with_pre: usize, code: u16, m: u8, out: &mut Out, t: &mut Tally) {
    t.events += 1;
    let r = guard(|| {
        if with_pre > 0 {
            let p = &s.pres[with_pre - 1];
            let _ = s.sess.ctx.get_suggestion_for_key(p.0, p.1, 0);
        }
        let sg = s.sess.ctx.get_suggestion_for_key(code, m, 0);
        let txt = shown(&sg, s.sugg);
        let ongoing = s.sess.ctx.ongoing_input_session();
        s.sess.ctx.finish_input_session();
        (txt, ongoing)
    });
    let prefix = if with_pre > 0 { s.pres[with_pre - 1].2.as_str() } else { "" };
    let val = s.oracle.value(code, m, s.numpad);
    // after a hasanta or a র the documented rules that no option switches off apply (hasanta + sign = vowel, doubled
    // hasanta, hasanta + length mark, zo-fola after a bare র): the expectation is the rule model of C12 with every helper off
    let expected = if with_pre > 3 {
        match crate::prop::c12::model(prefix, val.unwrap_or(""), false, false, false, false) {
            crate::prop::c12::Exp::Text(x, _) => x,
            crate::prop::c12::Exp::OneOf(..) | crate::prop::c12::Exp::Unspecified(_) => {
                let _ = r;
                t.unspecified += 1;
                return;
            }
        }
    } else {
        format!("{prefix}{}", val.unwrap_or(""))
    };
    let kname = keydef(code).map(|k| k.name.to_string()).unwrap_or_else(|| "out-of-table".to_string());
    let plane = if m & 2 != 0 { "AltGr" } else { "Normal" };
    let sigbase = format!("{}:{}:{}:numpad={}:pre={}:sugg={}", s.sess.spec.lay.name(), kname, plane, s.numpad, with_pre, s.sugg);
    match r {
        Err(p) => {
            let _ = guard(|| s.sess.ctx.finish_input_session());
            out.violation("key-emits-assignment", format!("panic@{}:{sigbase}", p.loc), case_json(s, with_pre, code, m),
                          format!("pre-edit text {expected:?}"), format!("panic at {}: {}", p.loc, p.msg));
        }
        Ok((Err(e), _)) => {
            out.violation("key-emits-assignment", format!("shape:{sigbase}"), case_json(s, with_pre, code, m),
                          format!("pre-edit text {expected:?}"), e);
        }
        Ok((Ok(got), _ongoing)) => {
            if got != expected {
                let clause = match (val, keydef(code)) {
                    (Some(_), _) => "key-emits-assignment",
                    (None, None) => "out-of-table-key-is-inert",
                    (None, Some(k)) if k.numpad && !s.numpad => "numpad-off-is-inert",
                    (None, Some(_)) => "unassigned-key-is-inert",
                };
                out.violation(clause, format!("{clause}:{sigbase}"), case_json(s, with_pre, code, m),
                              format!("pre-edit text {expected:?}"), format!("pre-edit text {got:?}"));
            }
            match (val, keydef(code)) {
                (Some(v), Some(k)) => {
                    t.emitted += 1;
                    if k.numpad {
                        t.numpad_on_emit += 1;
                    }
                    if m & 2 != 0 {
                        t.altgr_plane += 1;
                    }
                    if m & 1 != 0 {
                        t.shift_ignored += 1;
                    }
                    out.distinct(fnv_str(&[s.sess.spec.lay.name(), k.name, plane, v]));
                    if out.want_sample() && code % 7 == 0 && m == 2 {
                        out.sample(json!({"case": case_json(s, with_pre, code, m), "layout_says": v, "observed": got}));
                    }
                }
                (None, Some(k)) => {
                    if k.numpad && !s.numpad {
                        t.numpad_off_inert += 1;
                    } else {
                        t.inert_assigned_empty += 1;
                    }
                }
                (None, None) => t.inert_out_of_table += 1,
                (Some(_), None) => unreachable!(),
            }
        }
    }
}

impl Prop for C04 {
    fn id(&self) -> &'static str {
        "C04"
    }
    fn rule(&self) -> String {
        "complete enumeration: every u16 key code x modifier in {0,1,2,3,4,5,0x80,0xFE,0xFF} x numpad off/on x {the bundled Probhat.json; verif.json (synthetic: multi-code-point, white-space-only and empty entries); a second file called Probhat.json with four keys exchanged, named by the relative path `Probhat.json` from its own directory while the data directory holds the bundled file of that name} \
         x {idle, after the consonant ক} (the 111 published codes also after the vowel অ, after '!', after a hasanta, after র, after the signs ে and া and after a chandrabindu, where the expectation is the rule model of C12 with all helpers off), suggestions off (pre-edit text compared with the layout JSON read independently), plus the 111 published \
         codes x 9 modifiers with suggestions on (first candidate), plus the number-pad option switched off/on/off/on by update_engine under a live context for every number-pad key. distinct_nontrivial = distinct (layout, key, plane, assigned text) tuples that \
         emitted text and were compared."
            .into()
    }
    fn assumptions(&self) -> Vec<String> {
        vec![
            "the key-name table (keytab.rs) was transcribed from include/riti.h and is re-checked against the header at start-up".into(),
            "layout entry naming (Key_<name>_<Normal|AltGr>, Num<x>) follows the layout file format; every entry of each file is addressed by exactly one table row (self-check)".into(),
            "all composition helpers off; prefixes are a single consonant, independent vowel or ASCII mark, after which no rewrite rule applies with the helpers off".into(),
        ]
    }
    fn shards(&self, _tier: Tier) -> usize {
        16
    }
    fn exhaustive(&self, _tier: Tier) -> bool {
        true
    }
    fn minima(&self, _tier: Tier) -> Vec<(&'static str, u64)> {
        vec![("emitted", 1000), ("inert_out_of_table", 1_000_000), ("numpad_off_inert", 100), ("numpad_on_emit", 100),
             ("inert_assigned_empty_or_missing", 50), ("altgr_plane", 300), ("shift_bit_set", 300), ("suggestions_on_first_candidate", 500), ("numpad_option_switched_live", 100)]
    }
    fn run_shard(&self, env: &Env, out: &mut Out) {
        let mut t = Tally { events: 0, emitted: 0, inert_assigned_empty: 0, inert_out_of_table: 0, numpad_off_inert: 0, numpad_on_emit: 0, altgr_plane: 0, shift_ignored: 0, unspecified: 0 };
        let sets = match setups(env, false) {
            Ok(s) => s,
            Err(e) => {
                out.violation("setup", format!("setup:{e}"), json!({"setup": "fixed context creation"}), "contexts can be created".into(), e);
                return;
            }
        };
        for s in &sets {
            for code in 0..=u16::MAX {
                if !env.mine(code as usize) {
                    continue;
                }
                for &m in &MODS {
                    // every prefix for the published codes; idle and the consonant prefix for the other 65 425
                    let npre = if keydef(code).is_some() { s.pres.len() } else { 1 };
                    for with_pre in 0..=npre {
                        out.begin_case(|| case_json(s, with_pre, code, m));
                        judge(s, with_pre, code, m, out, &mut t);
                    }
                }
            }
        }
        drop(sets);
        // second pass: suggestions on, published codes only
        let mut t2 = Tally { events: 0, emitted: 0, inert_assigned_empty: 0, inert_out_of_table: 0, numpad_off_inert: 0, numpad_on_emit: 0, altgr_plane: 0, shift_ignored: 0, unspecified: 0 };
        match setups(env, true) {
            Ok(sets) => {
                for s in &sets {
                    for (i, k) in keys().iter().enumerate() {
                        if !env.mine(i) {
                            continue;
                        }
                        for &m in &MODS {
                            for with_pre in 0..=s.pres.len() {
                                out.begin_case(|| case_json(s, with_pre, k.code, m));
                                judge(s, with_pre, k.code, m, out, &mut t2);
                            }
                        }
                    }
                }
            }
            Err(e) => out.violation("setup", format!("setup:{e}"), json!({"setup": "fixed context creation (suggestions on)"}), "contexts can be created".into(), e),
        }
        // the number-pad option switched on and off under a live context ("only while the option is on")
        let mut dynamic = 0u64;
        if env.shard == 0 {
            for lay in [Lay::Probhat, Lay::Verif, Lay::Relative] {
                let root = env.root("c04-dyn");
                fresh_root(&root);
                let (Ok(mut sess), Ok(oracle)) = (Sess::new(CfgSpec::new(lay, 0), &root), LayoutOracle::load(lay)) else { continue };
                for k in keys().iter().filter(|k| k.numpad) {
                    for round in 0..4 {
                        let on = round % 2 == 1;
                        let spec = CfgSpec::new(lay, if on { O_NUMPAD } else { 0 });
                        if sess.update_with(spec, [0u8, 3, 1, 4, 2][round % 5]).is_err() {
                            break;
                        }
                        let got = sess.key(k.code, 0, 0).map(|s| shown(&s, false).unwrap_or_default());
                        let _ = sess.finish();
                        dynamic += 1;
                        let exp = oracle.value(k.code, 0, on).unwrap_or("").to_string();
                        if got.as_deref().ok() != Some(exp.as_str()) {
                            out.violation(if on { "key-emits-assignment" } else { "numpad-off-is-inert" }, format!("c04:numpad-option-switched-by-update_engine:{}:{}:on={on}", lay.name(), k.name),
                                          json!({"cfg": spec.to_json(), "history": "number-pad option switched by update_engine on a live idle context", "key": k.name, "round": round}),
                                          format!("pre-edit text {exp:?}"), format!("{got:?}"));
                        }
                    }
                }
            }
        }
        out.count("after_hasanta_or_ra_not_specified_by_the_rule_model", t.unspecified + t2.unspecified);
        out.count("numpad_option_switched_live", dynamic);
        out.count("evaluations", t.events + t2.events + dynamic);
        out.count("emitted", t.emitted);
        out.count("inert_assigned_empty_or_missing", t.inert_assigned_empty);
        out.count("inert_out_of_table", t.inert_out_of_table);
        out.count("numpad_off_inert", t.numpad_off_inert);
        out.count("numpad_on_emit", t.numpad_on_emit);
        out.count("altgr_plane", t.altgr_plane);
        out.count("shift_bit_set", t.shift_ignored);
        out.count("suggestions_on_first_candidate", t2.emitted);
    }
    fn replay(&self, env: &Env, case: &Value, out: &mut Out) {
        let Some(spec) = case.get("cfg").and_then(CfgSpec::from_json) else { return };
        let sugg = spec.has(O_FSUGG);
        let Ok(sets) = setups(env, sugg) else { return };
        let code = case.get("code").and_then(|c| c.as_u64()).unwrap_or(0) as u16;
        let m = case.get("modifier").and_then(|c| c.as_u64()).unwrap_or(0) as u8;
        let with_pre = case.get("prefix_index").and_then(|c| c.as_u64()).unwrap_or(0) as usize;
        let mut t = Tally { events: 0, emitted: 0, inert_assigned_empty: 0, inert_out_of_table: 0, numpad_off_inert: 0, numpad_on_emit: 0, altgr_plane: 0, shift_ignored: 0, unspecified: 0 };
        for s in &sets {
            if s.sess.spec == spec {
                judge(s, with_pre, code, m, out, &mut t);
            }
        }
    }
}
