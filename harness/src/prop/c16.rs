//! C16 — ANSI mode yields pure Bijoy text and never offers what it cannot encode.

use crate::base::*;
use crate::oracle::layout::LayoutOracle;
use crate::oracle::phon::{join, PhonOracle};
use crate::out::*;
use crate::phonjudge::wrapping;
use crate::phonkit::*;
use crate::prop::c15::{keys_for, FKey, FWRAPS};
use crate::prop::{c07, Prop};
use poriborton::bijoy2000::unicode_to_bijoy;
use riti::suggestion::{Rank, Suggestion};
use serde_json::{json, Value};

pub struct C16;

#[derive(Default)]
struct Tally {
    events: u64,
    ansi_candidates: u64,
    nonansi_candidates: u64,
    ansi_lists: u64,
    emoji_capable_texts: u64,
    english_capable_texts: u64,
    data_words: u64,
    data_via_typing: u64,
    singles: u64,
    flipped: u64,
    learned_then_ansi: u64,
}

fn flush(t: &Tally, out: &mut Out) {
    out.count("evaluations", t.events + t.data_words);
    out.count("ansi.candidates_encoded_and_compared", t.ansi_candidates);
    out.count("ansi.lists", t.ansi_lists);
    out.count("ansi.single_strings", t.singles);
    out.count("ansi.texts_retyped_after_switching_ansi_on_in_a_live_context", t.flipped);
    out.count("ansi.texts_with_a_learned_emoji_or_english_choice_retyped_with_ansi_on", t.learned_then_ansi);
    out.count("ansi.texts_that_have_emoji_outside_ansi", t.emoji_capable_texts);
    out.count("ansi.texts_with_english_option_on", t.english_capable_texts);
    out.count("non_ansi.candidates_preedit_identity", t.nonansi_candidates);
    out.count("data_exhaustive.strings_through_constructor", t.data_words);
    out.count("data_exhaustive.words_through_typing", t.data_via_typing);
}

fn has_bengali(s: &str) -> bool {
    s.chars().any(|c| BENGALI_BLOCK.contains(&c))
}

fn cp_sig(s: &str) -> String {
    // the rarest-looking code points of the candidate, for a stable signature
    let mut v: Vec<u32> = s.chars().filter(|c| !c.is_ascii()).map(|c| c as u32).collect();
    v.sort();
    v.dedup();
    v.iter().filter(|&&c| !(0x0985..=0x09B9).contains(&c) && !(0x09BE..=0x09CD).contains(&c) || c == 0x09C4).map(|c| format!("U+{c:04X}")).collect::<Vec<_>>().join("+")
}

/// Check one suggestion object's read-outs. `ansi` = what the configuration says.
fn judge_readout(s: &Suggestion, ansi: bool, case: &dyn Fn() -> Value, out: &mut Out, t: &mut Tally) {
    let cands: Vec<String> = if s.is_lonely() { vec![s.get_lonely_suggestion().to_string()] } else { s.get_suggestions().to_vec() };
    for (i, c) in cands.iter().enumerate() {
        let pe = guard(|| s.get_pre_edit_text(i));
        if ansi {
            t.ansi_candidates += 1;
            let want = guard(|| unicode_to_bijoy(c));
            match (pe, want) {
                (Err(p), _) => out.violation("preedit-is-bijoy", format!("c16:preedit-panic@{}:{}", p.loc, cp_sig(c)), case(), format!("Bijoy encoding of {c:?}"), format!("panic at {}: {}", p.loc, p.msg)),
                (Ok(pe), Ok(w)) => {
                    if pe != w {
                        out.violation("preedit-is-bijoy", "c16:preedit-differs-from-encoder".into(), case(), format!("{w:?} = unicode_to_bijoy({c:?})"), format!("{pe:?}"));
                    } else if has_bengali(&pe) {
                        let left: String = pe.chars().filter(|ch| BENGALI_BLOCK.contains(ch)).collect();
                        out.violation("preedit-has-no-bengali-code-point", format!("c16:bengali-left:{}", cp_sig(&left)), case(), format!("no U+0980-U+09FF code point in the pre-edit text of {c:?}"), format!("{pe:?}"));
                    }
                }
                (Ok(_), Err(_)) => {}
            }
        } else {
            t.nonansi_candidates += 1;
            match pe {
                Ok(pe) if pe == *c => {}
                Ok(pe) => out.violation("preedit-identity-without-ansi", "c16:non-ansi-preedit-differs".into(), case(), format!("{c:?}"), format!("{pe:?}")),
                Err(p) => out.violation("preedit-identity-without-ansi", format!("c16:non-ansi-preedit-panic@{}", p.loc), case(), format!("{c:?}"), format!("panic at {}", p.loc)),
            }
        }
    }
}

fn phon_specs() -> Vec<CfgSpec> {
    let p = |o: u16| CfgSpec::new(Lay::Phonetic, o);
    vec![
        p(O_PSUGG | O_ANSI), p(O_PSUGG | O_ANSI | O_ENG), p(O_PSUGG | O_ANSI | O_ENG | O_SQ), p(O_ANSI | O_ENG), p(O_ANSI),
        p(O_PSUGG | O_ENG), p(O_PSUGG | O_SQ), p(0),
    ]
}
fn fixed_specs(lay: Lay) -> Vec<CfgSpec> {
    let f = |o: u16| CfgSpec::new(lay, O_NUMPAD | o);
    vec![f(O_FSUGG | O_ANSI), f(O_FSUGG | O_ANSI | O_ENG | O_SQ | O_TKAR), f(O_ANSI | O_ENG), f(O_FSUGG | O_ENG), f(O_FSUGG), f(0)]
}

fn judge_phonetic(o: &mut PhonOracle, sess: &Sess, text: &str, out: &mut Out, t: &mut Tally) {
    let spec = sess.spec;
    let ansi = spec.has(O_ANSI);
    let case = || json!({"method": "phonetic", "cfg": spec.to_json(), "text": text});
    t.events += text.len() as u64;
    let s = match type_finish(sess, text) {
        Ok(s) => s,
        Err(p) => {
            let _ = sess.finish();
            out.violation("no-emoji-no-english-in-ansi", format!("c16:panic@{}", p.loc), case(), "a suggestion".into(), format!("panic at {}: {}", p.loc, p.msg));
            return;
        }
    };
    judge_readout(&s, ansi, &case, out, t);
    if !ansi {
        return;
    }
    if s.is_lonely() {
        t.singles += 1;
        return;
    }
    t.ansi_lists += 1;
    let list = s.get_suggestions().to_vec();
    let (_, word, _, pre, post) = wrapping(o, &spec, text);
    let emoji_capable = o.emoticons.contains_key(text) || o.emojis.contains_key(word.as_str());
    if emoji_capable {
        t.emoji_capable_texts += 1;
    }
    if spec.has(O_ENG) {
        t.english_capable_texts += 1;
    }
    out.distinct(fnv_str(&["p", text, &spec.opts.to_string()]));
    let own = format!("{pre}{}{post}", o.avro(&word));
    for x in &list {
        if o.contains_emoji(x) {
            out.violation("no-emoji-no-english-in-ansi", format!("c16:emoji-in-ansi:phonetic:eng={}", spec.has(O_ENG)), case(), "no emoji candidate with ANSI output on".into(), format!("{x:?} in {list:?}"));
        }
        if x == text && own != text {
            out.violation("no-emoji-no-english-in-ansi", format!("c16:raw-text-in-ansi:phonetic:eng={}", spec.has(O_ENG)), case(),
                          format!("the raw typed text is not offered with ANSI output on (its transliteration is {own:?})"), format!("{list:?}"));
        }
    }
    if out.want_sample() && t.ansi_lists % 1201 == 5 {
        let pes: Vec<String> = (0..list.len()).map(|i| guard(|| s.get_pre_edit_text(i)).unwrap_or_default()).collect();
        out.sample(json!({"method": "phonetic", "typed": text, "options": spec.short(), "candidates": list, "pre_edit_texts": pes}));
    }
}

fn judge_fixed(o: &PhonOracle, sess: &Sess, keys: &[FKey], out: &mut Out, t: &mut Tally) {
    let spec = sess.spec;
    let ansi = spec.has(O_ANSI);
    let mut raw = String::new();
    for (i, &(k, m, ch)) in keys.iter().enumerate() {
        t.events += 1;
        let case = || {
            let evs: Vec<Ev> = keys[..=i].iter().map(|&(k, m, _)| Ev::Key(k, m, 0)).collect();
            json!({"method": "fixed", "cfg": spec.to_json(), "events": evs_to_json(&evs)})
        };
        let s = match sess.key(k, m, 0) {
            Ok(s) => s,
            Err(p) => {
                out.violation("no-emoji-no-english-in-ansi", format!("c16:panic@{}", p.loc), case(), "a suggestion".into(), format!("panic at {}: {}", p.loc, p.msg));
                break;
            }
        };
        raw.push(ch);
        if s.is_empty() {
            continue;
        }
        judge_readout(&s, ansi, &case, out, t);
        if !ansi {
            continue;
        }
        if s.is_lonely() {
            t.singles += 1;
            continue;
        }
        t.ansi_lists += 1;
        let aux = s.get_auxiliary_text().to_string();
        let list = s.get_suggestions().to_vec();
        let (_, word, _) = crate::oracle::phon::split(&aux, true);
        if o.emoticons.contains_key(raw.as_str()) || o.bn_emojis.contains_key(word.as_str()) {
            t.emoji_capable_texts += 1;
        }
        if spec.has(O_ENG) {
            t.english_capable_texts += 1;
        }
        out.distinct(fnv_str(&["f", &aux, &spec.opts.to_string()]));
        for x in &list {
            if o.contains_emoji(x) {
                out.violation("no-emoji-no-english-in-ansi", format!("c16:emoji-in-ansi:fixed:eng={}", spec.has(O_ENG)), case(), "no emoji candidate with ANSI output on".into(), format!("{x:?} in {list:?}"));
            }
            if *x == raw && raw != aux && list[0] != raw {
                out.violation("no-emoji-no-english-in-ansi", format!("c16:raw-text-in-ansi:fixed:eng={}", spec.has(O_ENG)), case(), "the raw key text is not offered with ANSI output on".into(), format!("{list:?}"));
            }
        }
    }
    let _ = sess.finish();
}

/// Data-exhaustive pass through the public constructors.
fn judge_constructed(strings: &[String], out: &mut Out, t: &mut Tally) {
    for chunk in strings.chunks(8) {
        let ranks: Vec<Rank> = chunk.iter().map(|s| Rank::First(s.clone())).collect();
        let full = Suggestion::new("aux".to_string(), &ranks, 0, true);
        let case = || json!({"method": "constructor", "candidates": chunk});
        judge_readout(&full, true, &case, out, t);
        t.data_words += chunk.len() as u64;
        let lone = Suggestion::new_lonely(chunk[0].clone(), true);
        judge_readout(&lone, true, &case, out, t);
    }
}

impl Prop for C16 {
    fn id(&self) -> &'static str {
        "C16"
    }
    fn rule(&self) -> String {
        "phonetic: every emoji-capable text typed with ANSI off, then again after update_engine switched ANSI on in the same context; ten texts for which the harness first *chooses* an emoji or the raw English text with ANSI off (so that the choice is in the store), typed with ANSI on in the same context and in a new one; the C07 text sources (strided) typed in 5 ANSI contexts (suggestions on/off x English on/off x smart quotes) and 3 non-ANSI ones; \
         fixed: prefixes of dictionary words (every 60th quick, every 6th thorough), Bengali emoji names, emoticon key sequences and random key histories over both planes of Probhat and the synthetic layout in 3 ANSI and 3 non-ANSI contexts; \
         data-exhaustive (through Suggestion::new / new_lonely with ANSI on): every word of dictionary.json, every suffix value, every transliterated auto-correct value, and every suffix-joined form of the auto-correct values (strided in quick), \
         plus every 200th (quick) / 20th (thorough) dictionary word typed in fixed mode. Every candidate's pre-edit text is compared with poriborton's encoder called directly and scanned for U+0980-U+09FF. \
         distinct_nontrivial = distinct (method, text, options) ANSI lists judged."
            .into()
    }
    fn assumptions(&self) -> Vec<String> {
        vec![
            "O-bijoy is poriborton::bijoy2000::unicode_to_bijoy called directly under catch_unwind (the crate riti links)".into(),
            "a candidate equal to the raw text is legitimate when the raw text is its own transliteration/composition".into(),
        ]
    }
    fn shards(&self, tier: Tier) -> usize {
        tier.pick(16, 64)
    }
    fn minima(&self, _tier: Tier) -> Vec<(&'static str, u64)> {
        vec![
            ("ansi.candidates_encoded_and_compared", 100_000), ("ansi.lists", 5_000), ("ansi.texts_that_have_emoji_outside_ansi", 300),
            ("ansi.texts_with_english_option_on", 2_000), ("ansi.texts_retyped_after_switching_ansi_on_in_a_live_context", 300), ("non_ansi.candidates_preedit_identity", 10_000), ("data_exhaustive.strings_through_constructor", 150_000),
        ]
    }
    fn classify(&self, classifier: &str, _params: &Value, v: &Violation) -> bool {
        match classifier {
            // the third-party Bijoy encoder panics on the vowel sign VOCALIC RR (U+09C4)
            "encoder-panic-on-U+09C4" => v.clause == "preedit-is-bijoy" && v.sig.starts_with("c16:preedit-panic@poriborton-") && v.sig.contains("U+09C4"),
            _ => false,
        }
    }
    fn run_shard(&self, env: &Env, out: &mut Out) {
        let Ok(mut o) = PhonOracle::new() else {
            out.note("oracle load failed".into());
            return;
        };
        let thorough = env.tier == Tier::Thorough;
        let root = env.root("c16");
        fresh_root(&root);
        let mut t = Tally::default();
        let mut rng = env.rng("c16");
        // ---- phonetic
        let ps: Vec<Sess> = match phon_specs().into_iter().map(|s| Sess::new(s, &root)).collect::<Result<_, _>>() {
            Ok(v) => v,
            Err(p) => {
                out.violation("setup", format!("c16:setup-panic@{}", p.loc), json!({}), "context creation".into(), p.msg);
                return;
            }
        };
        let texts = c07::text_sources(&mut o, env, &mut rng);
        let stride = env.tier.pick(4, 1);
        for (i, tx) in texts.iter().enumerate() {
            if !env.mine(i) || (i / env.nshards) % stride != 0 {
                continue;
            }
            let emoji_capable = o.emoticons.contains_key(tx.as_str()) || o.emojis.contains_key(tx.as_str());
            let n = if emoji_capable || thorough { ps.len() } else { 2 };
            for j in 0..n {
                let sess = &ps[(i / env.nshards + j) % ps.len()];
                out.begin_case(|| json!({"method": "phonetic", "cfg": sess.spec.to_json(), "text": tx}));
                judge_phonetic(&mut o, sess, tx, out, &mut t);
            }
        }
        drop(ps);
        // ---- the ANSI option switched on under a live context that has already shown the same text with emoji
        {
            let off = CfgSpec::new(Lay::Phonetic, O_PSUGG | O_ENG);
            let on = off.with(O_ANSI);
            if let Ok(mut flip) = Sess::new(off, &root) {
                for (i, tx) in texts.iter().enumerate() {
                    let (_, word, _) = crate::oracle::phon::split(tx, false);
                    if !env.mine(i) || !(o.emoticons.contains_key(tx.as_str()) || o.emojis.contains_key(word.as_str())) {
                        continue;
                    }
                    let dm = [0u8, 3, 1, 4, 2][(t.flipped as usize) % 5];
                    if flip.update_with(off, dm).is_err() || type_finish(&flip, tx).is_err() || flip.update_with(on, dm).is_err() {
                        break;
                    }
                    t.flipped += 1;
                    out.begin_case(|| json!({"method": "phonetic", "cfg": on.to_json(), "text": tx, "typed_before_with_ansi_off_in_the_same_context": true}));
                    judge_phonetic(&mut o, &flip, tx, out, &mut t);
                }
            }
        }
        // ---- choices learned with ANSI off (an emoji, the raw English text) must not come back once ANSI is on: neither in the
        // same context after update_engine nor in a new context that loads the store
        if env.shard == 0 {
            let lroot = env.root("c16-learned");
            fresh_root(&lroot);
            let off = CfgSpec::new(Lay::Phonetic, O_PSUGG | O_ENG);
            let on = off.with(O_ANSI);
            if let Ok(mut s) = Sess::new(off, &lroot) {
                let mut learned: Vec<&str> = vec![];
                for tx in ["smile", "hasi", "cool", "heart", "ami", "sun", "(fire)", "moon", "tumi", "rose."] {
                    let Ok(Some(sg)) = s.type_text_protocol(tx) else { continue };
                    if sg.is_lonely() {
                        let _ = s.finish();
                        continue;
                    }
                    let list = sg.get_suggestions();
                    // an emoji candidate if there is one, else the raw English text (always the last one here)
                    let idx = list.iter().position(|c| o.contains_emoji(c)).unwrap_or(list.len() - 1);
                    if idx == sg.previously_selected_index() || s.commit(idx).is_err() {
                        let _ = s.finish();
                        continue;
                    }
                    learned.push(tx);
                }
                let fresh = Sess::new(on, &lroot);
                let dm = [0u8, 3, 1, 4, 2][(env.seed % 5) as usize];
                if s.update_with(on, dm).is_ok() {
                    if let Ok(fresh) = fresh {
                        for tx in &learned {
                            for (which, ctx) in [("the same context after update_engine", &s), ("a new context over the same store", &fresh)] {
                                t.learned_then_ansi += 1;
                                out.begin_case(|| json!({"method": "phonetic", "cfg": on.to_json(), "text": tx, "history": format!("an emoji / the raw English text was chosen for this text with ANSI off; typed again with ANSI on in {which}"),
                                                         "store": std::fs::read_to_string(selection_file(&lroot)).unwrap_or_default()}));
                                judge_phonetic(&mut o, ctx, tx, out, &mut t);
                            }
                        }
                    }
                }
            }
        }
        // ---- fixed
        for lay in [Lay::Probhat, Lay::Verif] {
            let Ok(lo) = LayoutOracle::load(lay) else { continue };
            let rev = lo.reverse();
            let fs: Vec<Sess> = match fixed_specs(lay).into_iter().map(|s| Sess::new(s, &root)).collect::<Result<_, _>>() {
                Ok(v) => v,
                Err(p) => {
                    out.violation("setup", format!("c16:setup-panic@{}", p.loc), json!({}), "context creation".into(), p.msg);
                    return;
                }
            };
            let mut words: Vec<&String> = o.tables.values().flatten().collect();
            words.sort();
            words.dedup();
            let step = env.tier.pick(60, 6);
            let mut n = 0usize;
            let mut texts: Vec<String> = vec![];
            for (wi, w) in words.iter().enumerate() {
                if wi % step == (env.seed as usize) % step {
                    texts.push((*w).clone());
                    if wi % (step * 4) == 0 {
                        let (l, r) = FWRAPS[wi % FWRAPS.len()];
                        texts.push(format!("{l}{w}{r}"));
                    }
                }
            }
            let mut names: Vec<&&str> = o.bn_emojis.keys().collect();
            names.sort();
            texts.extend(names.iter().map(|s| s.to_string()));
            for tx in &texts {
                let mine = env.mine(n);
                n += 1;
                if !mine {
                    continue;
                }
                let Some(keys) = keys_for(&rev, tx) else { continue };
                let k = if o.bn_emojis.contains_key(tx.as_str()) { fs.len() } else { 2 };
                for j in 0..k {
                    let sess = &fs[(n / env.nshards + j) % fs.len()];
                    out.begin_case(|| json!({"method": "fixed", "cfg": sess.spec.to_json(), "text": tx}));
                    judge_fixed(&o, sess, &keys, out, &mut t);
                }
            }
            // emoticon key sequences (raw keys spell an emoticon)
            let mut emo: Vec<&&str> = o.emoticons.keys().collect();
            emo.sort();
            for (i, e) in emo.iter().enumerate() {
                if !env.mine(i) || !typeable(e) {
                    continue;
                }
                let keys: Vec<FKey> = e.chars().map(|c| (kc(c), 0u8, c)).collect();
                for sess in fs.iter().take(3) {
                    judge_fixed(&o, sess, &keys, out, &mut t);
                }
            }
            // random key histories over both planes
            let main_keys: Vec<(u16, char)> = keys().iter().filter(|k| k.ch.is_some()).map(|k| (k.code, k.ch.unwrap())).collect();
            let nrand = env.tier.pick(150, 4000);
            for r in 0..nrand {
                let len = rng.range(1, 8);
                let keys: Vec<FKey> = (0..len)
                    .map(|_| {
                        let (c, ch) = main_keys[rng.below(main_keys.len())];
                        (c, if rng.chance(1, 4) { 2 } else { 0 }, ch)
                    })
                    .collect();
                let sess = &fs[r % fs.len()];
                out.begin_case(|| json!({"method": "fixed", "cfg": sess.spec.to_json(), "keys": keys.iter().map(|k| k.0).collect::<Vec<_>>()}));
                judge_fixed(&o, sess, &keys, out, &mut t);
            }
            // data-exhaustive via typing (strided)
            if lay == Lay::Probhat {
                let dstep = env.tier.pick(200, 20);
                let sess = &fs[0];
                let mut m = 0usize;
                for (wi, w) in words.iter().enumerate() {
                    if wi % dstep != 1 {
                        continue;
                    }
                    let mine = env.mine(m);
                    m += 1;
                    if !mine {
                        continue;
                    }
                    if let Some(keys) = keys_for(&rev, w) {
                        t.data_via_typing += 1;
                        judge_fixed(&o, sess, &keys, out, &mut t);
                    }
                }
            }
        }
        // ---- data-exhaustive through the constructors
        let mut data: Vec<String> = o.tables.values().flatten().cloned().collect();
        data.sort();
        data.dedup();
        let mut sfxv: Vec<String> = o.suffix.values().cloned().collect();
        sfxv.sort();
        sfxv.dedup();
        let mut acv: Vec<String> = o.ac.values().filter(|v| v.is_ascii()).map(|v| o.avro(v)).collect();
        acv.sort();
        acv.dedup();
        let jstride = env.tier.pick(23, 1);
        let mut joined: Vec<String> = vec![];
        for (i, a) in acv.iter().enumerate() {
            for (j, s) in sfxv.iter().enumerate() {
                if (i + j) % jstride == 0 {
                    if let Some(x) = join(a, s) {
                        joined.push(x);
                    }
                }
            }
        }
        data.extend(sfxv);
        data.extend(acv);
        data.extend(joined);
        let mine: Vec<String> = data.into_iter().enumerate().filter(|(i, _)| env.mine(i / 8)).map(|(_, s)| s).collect();
        judge_constructed(&mine, out, &mut t);
        flush(&t, out);
    }
    fn replay(&self, env: &Env, case: &Value, out: &mut Out) {
        let Ok(mut o) = PhonOracle::new() else { return };
        let root = env.root("c16");
        fresh_root(&root);
        let mut t = Tally::default();
        match case.get("method").and_then(|m| m.as_str()) {
            Some("constructor") => {
                let v: Vec<String> = case.get("candidates").and_then(|c| c.as_array()).map(|a| a.iter().filter_map(|s| s.as_str().map(|s| s.to_string())).collect()).unwrap_or_default();
                judge_constructed(&v, out, &mut t);
            }
            Some("phonetic") => {
                let Some(spec) = case.get("cfg").and_then(CfgSpec::from_json) else { return };
                let Ok(sess) = Sess::new(spec, &root) else { return };
                judge_phonetic(&mut o, &sess, case.get("text").and_then(|t| t.as_str()).unwrap_or(""), out, &mut t);
            }
            Some("fixed") => {
                let Some(spec) = case.get("cfg").and_then(CfgSpec::from_json) else { return };
                let Ok(sess) = Sess::new(spec, &root) else { return };
                let keys: Vec<FKey> = if let Some(evs) = case.get("events").and_then(evs_from_json) {
                    evs.iter().filter_map(|e| if let Ev::Key(k, m, _) = e { Some((*k, *m, char_for_key(*k).unwrap_or('?'))) } else { None }).collect()
                } else {
                    return;
                };
                judge_fixed(&o, &sess, &keys, out, &mut t);
            }
            _ => {}
        }
        flush(&t, out);
    }
}
