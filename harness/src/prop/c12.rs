//! C12 — fixed-layout composition helpers rewrite the text exactly as documented.
//! Reference-model monitor: after every key the pre-edit text must equal
//! O-rules(previous text, key value, options); after a backspace it must be the
//! previous text minus its last code point.

use crate::base::*;
use crate::fixedkit::*;
use crate::oracle::layout::LayoutOracle;
use crate::out::*;
use crate::prop::Prop;
use serde_json::{json, Value};

pub struct C12;

#[derive(Debug, PartialEq, Eq)]
pub enum Exp {
    Text(String, &'static str),
    /// the documented rules can be read in more than one way, but every reading gives one of these texts
    OneOf(Vec<String>, &'static str),
    Unspecified(&'static str),
}

/// O-rules: executable model of the documented rule chain (old vowel-sign order off).
/// `reph_on` only matters for the reph key, which is then left to C13.
pub fn model(buf: &str, val: &str, vowel: bool, chandra: bool, tkar: bool, reph_on: bool) -> Exp {
    let mut rev = buf.chars().rev();
    let last = rev.next();
    let prev = rev.next();
    let mut vit = val.chars();
    let v: [char; 2] = [vit.next().unwrap_or('\0'), vit.next().unwrap_or('\0')];
    let vlen = val.chars().count();
    let out = |s: String, r: &'static str| Exp::Text(s, r);
    if vlen == 0 {
        return out(buf.to_string(), "inert");
    }
    if val == REPH && reph_on {
        return Exp::Unspecified("reph key with old-style reph on (judged by C13)");
    }
    // a value of several code points that begins with a hasanta, typed after a hasanta: either it is simply appended, or
    // the doubled-hasanta rule applies to its first code point (a non-joiner goes in between); nothing of it is lost
    let after_hasanta = |buf: &str, val: &str| Exp::OneOf(vec![format!("{buf}{val}"), format!("{buf}{ZWNJ}{val}"), format!("{buf}{ZWNJ}{}", &val[HASANTA.len_utf8()..])], "hasanta-first-value-after-hasanta");
    if val == ZOFOLA {
        if last == Some(HASANTA) {
            return after_hasanta(buf, val);
        }
        if last == Some('র') && prev != Some(HASANTA) {
            return out(format!("{buf}{ZWJ}{val}"), "zofola-after-bare-ra");
        }
        return out(format!("{buf}{val}"), "append");
    }
    if vlen > 1 {
        if v[0] == HASANTA && last == Some(HASANTA) {
            return after_hasanta(buf, val);
        }
        if is_kar(v[0]) || v[0] == '\u{09C4}' {
            return Exp::Unspecified("multi-code-point value beginning with a vowel sign");
        }
        return out(format!("{buf}{val}"), "append");
    }
    let c = v[0];
    let pop1 = || -> String { buf[..buf.len() - last.map(|l| l.len_utf8()).unwrap_or(0)].to_string() };
    if is_kar(c) || c == '\u{09C4}' {
        if vowel {
            // "at the start, after a vowel or vowel sign, or after punctuation"
            match last {
                None => return out(format!("{buf}{}", independent_of(c).unwrap()), "auto-vowel-at-start"),
                Some(l) if is_vowel_letter(l) || is_kar(l) => return out(format!("{buf}{}", independent_of(c).unwrap()), "auto-vowel-after-vowel"),
                Some(l) if l.is_ascii_punctuation() => return out(format!("{buf}{}", independent_of(c).unwrap()), "auto-vowel-after-punctuation"),
                Some(l) if is_rare(l) => return Exp::Unspecified("vowel sign after a rare Sanskrit vowel/sign with automatic vowel forming"),
                // (a letter of another script - ग, Ħ, é - is a letter, not punctuation: the sign is appended)
                Some(l) if !l.is_ascii() && !(l.is_alphabetic() && !BENGALI_BLOCK.contains(&l)) && !is_consonant(l) && !is_bengali_digit(l) && l != HASANTA && l != CHANDRA && l != ZWNJ && l != ZWJ && l != 'ং' && l != 'ঃ' && l != AU_MARK => {
                    return Exp::Unspecified("vowel sign after a non-ASCII mark with automatic vowel forming")
                }
                _ => {}
            }
        }
        if chandra && last == Some(CHANDRA) {
            return out(format!("{}{c}{CHANDRA}", pop1()), "auto-chandra");
        }
        if last == Some(HASANTA) {
            return out(format!("{}{}", pop1(), independent_of(c).unwrap()), "hasanta+sign=vowel");
        }
        if tkar && "ুূৃ".contains(c) {
            match last {
                Some(l) if is_consonant(l) => return out(format!("{buf}{ZWNJ}{c}"), "traditional-kar"),
                Some(l) if is_assamese(l) => return Exp::Unspecified("traditional joining after an Assamese consonant"),
                _ => {}
            }
        }
        return out(format!("{buf}{c}"), "append");
    }
    if c == HASANTA && last == Some(HASANTA) {
        return out(format!("{buf}{ZWNJ}"), "double-hasanta");
    }
    if c == AU_MARK && last == Some(HASANTA) {
        return out(format!("{}ঔ", pop1()), "hasanta+au-mark");
    }
    out(format!("{buf}{c}"), "append")
}

pub const ALPHABET: [&str; 29] = [
    "অ", "ই", "া", "ি", "ু", "ে", "ো", "ৌ", "\u{09C4}", "\u{09D7}", "ক", "র", "ৎ", "\u{09CD}", "\u{0981}", "ং", "\u{200C}", "\u{200D}", "১", "!", "'", "&",
    "।", "\"", "\u{09CD}\u{09B0}", "\u{09CD}\u{09AF}", "ক\u{09CD}ষ", "ৡ", "\u{09B0}\u{09CD}",
];

#[derive(Clone, Copy, Debug)]
pub enum Step {
    K(usize),
    Bs,
}

fn spec_for(bits: u8) -> CfgSpec {
    let mut o = 0;
    if bits & 1 != 0 {
        o |= O_VOWEL;
    }
    if bits & 2 != 0 {
        o |= O_CHANDRA;
    }
    if bits & 4 != 0 {
        o |= O_TKAR;
    }
    if bits & 8 != 0 {
        o |= O_REPH;
    }
    CfgSpec::new(Lay::Verif, o)
}

fn case_json(spec: &CfgSpec, alpha: &[Sym], steps: &[Step]) -> Value {
    let evs: Vec<Ev> = steps
        .iter()
        .map(|s| match s {
            Step::K(i) => Ev::Key(alpha[*i].code, alpha[*i].md, 0),
            Step::Bs => Ev::Bs,
        })
        .collect();
    let vals: Vec<String> = steps
        .iter()
        .map(|s| match s {
            Step::K(i) => esc(&alpha[*i].val),
            Step::Bs => "<BS>".into(),
        })
        .collect();
    json!({"cfg": spec.to_json(), "events": evs_to_json(&evs), "values": vals})
}

#[derive(Default)]
struct Tally {
    events: u64,
    unspecified: u64,
    bs: u64,
    rules: std::collections::BTreeMap<&'static str, u64>,
}

/// Execute `steps` on an idle context and judge every step. The context is left idle.
fn run_steps(sess: &Sess, spec: &CfgSpec, alpha: &[Sym], steps: &[Step], out: &mut Out, t: &mut Tally) {
    let (vowel, chandra, tkar, reph) = (spec.has(O_VOWEL), spec.has(O_CHANDRA), spec.has(O_TKAR), spec.has(O_REPH));
    let mut prev = String::new();
    for (n, st) in steps.iter().enumerate() {
        match st {
            Step::K(i) => {
                let sy = &alpha[*i];
                t.events += 1;
                let got = match sess.key(sy.code, sy.md, 0) {
                    Ok(s) => shown(&s),
                    Err(p) => {
                        out.violation("rule-chain", format!("c12:panic@{}", p.loc), case_json(spec, alpha, &steps[..=n]),
                                      "the key is processed".into(), format!("panic at {}: {}", p.loc, p.msg));
                        let _ = sess.finish();
                        return;
                    }
                };
                match model(&prev, &sy.val, vowel, chandra, tkar, reph) {
                    Exp::Unspecified(_) => t.unspecified += 1,
                    Exp::OneOf(alts, rule) => {
                        *t.rules.entry(rule).or_insert(0) += 1;
                        if !alts.contains(&got) {
                            let sig = format!("c12:{rule}:val={}:v{}c{}t{}", esc(&sy.val), vowel as u8, chandra as u8, tkar as u8);
                            out.violation("rule-chain", sig, case_json(spec, alpha, &steps[..=n]), format!("one of {alts:?} (text before {prev:?}, key value {:?})", sy.val), format!("{got:?}"));
                        }
                    }
                    Exp::Text(exp, rule) => {
                        *t.rules.entry(rule).or_insert(0) += 1;
                        if rule != "append" {
                            out.distinct(fnv_str(&[&prev, &sy.val, &spec.opts.to_string()]));
                            if out.want_sample() && (t.events % 977 == 0) {
                                out.sample(json!({"options": spec.short(), "text_before": prev, "key_value": sy.val, "rule": rule, "text_after": got}));
                            }
                        }
                        if exp != got {
                            let last = prev.chars().last().map(|c| esc(&c.to_string())).unwrap_or_else(|| "<start>".into());
                            let sig = format!("c12:{rule}:last={last}:val={}:v{}c{}t{}", esc(&sy.val), vowel as u8, chandra as u8, tkar as u8);
                            out.violation("rule-chain", sig, case_json(spec, alpha, &steps[..=n]),
                                          format!("{:?} (rule {rule}; text before {:?}, key value {:?})", exp, prev, sy.val), format!("{got:?}"));
                        }
                    }
                }
                prev = got;
            }
            Step::Bs => {
                t.bs += 1;
                let r = sess.bs(false);
                let (got, empty) = match r {
                    Ok(s) => (shown(&s), s.is_empty()),
                    Err(p) => {
                        out.violation("backspace", format!("c12:bs-panic@{}", p.loc), case_json(spec, alpha, &steps[..=n]),
                                      "backspace is processed".into(), format!("panic at {}: {}", p.loc, p.msg));
                        let _ = sess.finish();
                        return;
                    }
                };
                let mut cs: Vec<char> = prev.chars().collect();
                cs.pop();
                let exp: String = cs.iter().collect();
                if got != exp || (exp.is_empty() != empty) {
                    let last = prev.chars().last().map(|c| esc(&c.to_string())).unwrap_or_else(|| "<empty>".into());
                    out.violation("backspace", format!("c12:backspace:last={last}"), case_json(spec, alpha, &steps[..=n]),
                                  format!("{exp:?} (previous text {prev:?} minus its last code point)"), format!("{got:?} empty={empty}"));
                }
                prev = got;
            }
        }
    }
    let _ = sess.finish();
}

fn flush(t: &Tally, out: &mut Out) {
    out.count("evaluations", t.events + t.bs);
    out.count("key_events_judged", t.events - t.unspecified);
    out.count("unspecified_not_judged", t.unspecified);
    out.count("backspaces_judged", t.bs);
    for (r, n) in &t.rules {
        out.count(&format!("rule.{r}"), *n);
    }
}

impl Prop for C12 {
    fn id(&self) -> &'static str {
        "C12"
    }
    fn rule(&self) -> String {
        format!(
            "every key history of length <= L (L=4 quick, 5 thorough) over a {}-symbol alphabet of the synthetic layout with one representative of every \
             character class the rules distinguish (incl. multi-code-point values), under all 16 settings of auto-vowel/auto-chandra/traditional/old-reph, \
             every step judged against the executable rule model; every distinct value of the layout file (about 190, incl. every sign, vowel, consonant and mark of the Bengali block) after every prefix of length <= 1 (quick) / 2 (thorough) over that alphabet, and directly after every other value of the layout file (so that every mark, digit and letter is also the last character of the text); each history is followed by a backspace chain down to empty; plus random histories of \
             length 4-7 and 10-30 with 20% backspaces, three quarters of them with options the statement does not mention switched on (ANSI, smart quotes, English, number pad, phonetic suggestions). distinct_nontrivial = distinct (text before, key value, options) triples in which a non-append rule fired and was compared.",
            ALPHABET.len()
        )
    }
    fn assumptions(&self) -> Vec<String> {
        vec![
            "character classes (vowel, vowel sign, consonant) are taken from the Unicode chart; contexts involving ঌ ৠ ৡ ৄ(as last) ৢ ৣ, non-ASCII marks such as । for the 'after punctuation' test, Assamese consonants, are counted as unspecified and not judged; a multi-code-point value beginning with hasanta typed after hasanta must give one of three texts (appended as it is; a non-joiner in between; a non-joiner replacing its own hasanta)".into(),
            "the reph key with old-style reph on is judged by C13, not here".into(),
            "old vowel-sign order off, suggestions off".into(),
        ]
    }
    fn shards(&self, tier: Tier) -> usize {
        tier.pick(16, 64)
    }
    fn exhaustive(&self, _tier: Tier) -> bool {
        true
    }
    fn minima(&self, _tier: Tier) -> Vec<(&'static str, u64)> {
        vec![
            ("rule.zofola-after-bare-ra", 50), ("rule.auto-vowel-at-start", 50), ("rule.auto-vowel-after-vowel", 50),
            ("rule.auto-vowel-after-punctuation", 50), ("rule.auto-chandra", 50), ("rule.hasanta+sign=vowel", 50),
            ("rule.double-hasanta", 50), ("rule.hasanta+au-mark", 50), ("rule.traditional-kar", 50), ("rule.append", 1000),
            ("backspaces_judged", 1000), ("every_layout_value_after_short_prefixes", 50_000),
        ]
    }
    fn run_shard(&self, env: &Env, out: &mut Out) {
        let oracle = match LayoutOracle::load(Lay::Verif) {
            Ok(o) => o,
            Err(e) => {
                out.note(format!("layout oracle: {e}"));
                return;
            }
        };
        let alpha = syms(&oracle, &ALPHABET);
        let n = alpha.len();
        let maxlen = env.tier.pick(4, 5);
        let root = env.root("c12");
        fresh_root(&root);
        let mut t = Tally::default();
        let mut item = 0usize;
        for bits in 0..16u8 {
            let spec = spec_for(bits);
            let mut sess: Option<Sess> = None;
            for first in 0..n {
                let mine = env.mine(item);
                item += 1;
                if !mine {
                    continue;
                }
                if sess.is_none() {
                    match Sess::new(spec, &root) {
                        Ok(s) => sess = Some(s),
                        Err(p) => {
                            out.violation("setup", format!("c12:setup-panic@{}", p.loc), json!({"cfg": spec.to_json()}), "context creation".into(), p.msg);
                            break;
                        }
                    }
                }
                let s = sess.as_ref().unwrap();
                let mut idx = vec![0usize; maxlen];
                idx[0] = first;
                let mut steps: Vec<Step> = Vec::with_capacity(maxlen * 2 + 2);
                let mut hno = 0u64;
                loop {
                    steps.clear();
                    steps.extend(idx.iter().map(|&i| Step::K(i)));
                    hno += 1;
                    // a backspace chain after a sample of histories, one backspace after every history
                    if hno % 8 == 0 {
                        for _ in 0..(maxlen * 3 + 2) {
                            steps.push(Step::Bs);
                        }
                    } else {
                        steps.push(Step::Bs);
                    }
                    out.begin_case(|| case_json(&spec, &alpha, &steps));
                    run_steps(s, &spec, &alpha, &steps, out, &mut t);
                    if !next_seq(&mut idx, n) {
                        break;
                    }
                }
            }
        }
        // every value of the layout file after every prefix of length <= 1 (quick) / 2 (thorough) over the alphabet
        {
            let mut vals: Vec<&String> = oracle.map.values().filter(|v| !v.is_empty()).collect();
            vals.sort();
            vals.dedup();
            let mut alpha2 = syms(&oracle, &ALPHABET);
            for v in vals {
                if let Some((code, md)) = oracle.key_for_value(v) {
                    alpha2.push(Sym { val: v.clone(), code, md });
                }
            }
            let plen = env.tier.pick(1, 2);
            let mut nall = 0u64;
            for bits in 0..16u8 {
                if !env.mine(bits as usize) {
                    continue;
                }
                let spec = spec_for(bits);
                let Ok(s) = Sess::new(spec, &root) else { continue };
                for last in n..alpha2.len() {
                    for l in 0..=plen {
                        let mut idx = vec![0usize; l];
                        loop {
                            let mut steps: Vec<Step> = idx.iter().map(|&i| Step::K(i)).collect();
                            steps.push(Step::K(last));
                            steps.push(Step::Bs);
                            nall += 1;
                            out.begin_case(|| case_json(&spec, &alpha2, &steps));
                            run_steps(&s, &spec, &alpha2, &steps, out, &mut t);
                            // all digits free here (no pinned first digit)
                            let mut k = l;
                            let mut more = false;
                            while k > 0 {
                                k -= 1;
                                idx[k] += 1;
                                if idx[k] < n {
                                    more = true;
                                    break;
                                }
                                idx[k] = 0;
                            }
                            if !more {
                                break;
                            }
                        }
                    }
                }
            }
            out.count("every_layout_value_after_short_prefixes", nall);
            // every value of the layout file directly after every other value (every mark, digit, sign and letter as the
            // *last* character of the text as well, not only as the key pressed), followed by two backspaces
            let mut npairs = 0u64;
            for bits in 0..16u8 {
                if !env.mine(bits as usize + 5) {
                    continue;
                }
                let spec = spec_for(bits);
                let Ok(s) = Sess::new(spec, &root) else { continue };
                for first in n..alpha2.len() {
                    for last in n..alpha2.len() {
                        let steps = [Step::K(first), Step::K(last), Step::Bs, Step::Bs];
                        npairs += 1;
                        out.begin_case(|| case_json(&spec, &alpha2, &steps));
                        run_steps(&s, &spec, &alpha2, &steps, out, &mut t);
                    }
                }
            }
            out.count("every_layout_value_after_every_layout_value", npairs);
        }
        // random longer histories with backspaces
        let mut rng = env.rng("c12-random");
        let nrand = env.tier.pick(600, 6000);
        // options the statement does not mention ride along in three quarters of the random histories: they must not matter
        const BYSTANDERS: [u16; 4] = [0, O_ANSI | O_FSUGG, O_SQ | O_ENG, O_NUMPAD | O_PSUGG | O_FSUGG];
        let mut cache: Vec<Option<Sess>> = (0..64).map(|_| None).collect();
        for _ in 0..nrand {
            let bits = rng.below(16);
            let by = rng.below(4);
            let spec = CfgSpec { opts: spec_for(bits as u8).opts | BYSTANDERS[by], ..spec_for(bits as u8) };
            let slot = bits * 4 + by;
            if cache[slot].is_none() {
                cache[slot] = Sess::new(spec, &root).ok();
            }
            let Some(s) = cache[slot].as_ref() else { continue };
            for j in 0..200 {
                // mostly short histories just beyond the exhaustive bound, some long ones
                let len = if j % 8 == 0 { rng.range(10, 30) } else { rng.range(4, 7) };
                let steps: Vec<Step> = (0..len).map(|_| if rng.chance(1, 5) { Step::Bs } else { Step::K(rng.below(n)) }).collect();
                out.begin_case(|| case_json(&spec, &alpha, &steps));
                run_steps(s, &spec, &alpha, &steps, out, &mut t);
            }
        }
        flush(&t, out);
    }
    fn replay(&self, env: &Env, case: &Value, out: &mut Out) {
        let Some(spec) = case.get("cfg").and_then(CfgSpec::from_json) else { return };
        let Some(evs) = case.get("events").and_then(evs_from_json) else { return };
        let Ok(oracle) = LayoutOracle::load(Lay::Verif) else { return };
        // rebuild an alphabet from the events themselves
        let mut alpha: Vec<Sym> = vec![];
        let mut steps = vec![];
        for e in &evs {
            match e {
                Ev::Key(k, m, _) => {
                    let val = oracle.value(*k, *m, false).unwrap_or("").to_string();
                    alpha.push(Sym { val, code: *k, md: *m });
                    steps.push(Step::K(alpha.len() - 1));
                }
                Ev::Bs => steps.push(Step::Bs),
                _ => {}
            }
        }
        let root = env.root("c12");
        fresh_root(&root);
        let Ok(s) = Sess::new(spec, &root) else { return };
        let mut t = Tally::default();
        run_steps(&s, &spec, &alpha, &steps, out, &mut t);
        flush(&t, out);
    }
}
