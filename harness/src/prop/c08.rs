//! C08 — dictionary-derived candidates are justified, and suffix forms are complete.

use crate::base::*;
use crate::oracle::phon::{join, join_cell, PhonOracle, Why};
use crate::out::*;
use crate::phonjudge::*;
use crate::phonkit::*;
use crate::prop::c07;
use crate::prop::Prop;
use serde_json::{json, Value};
use std::collections::{BTreeMap, HashMap};

pub struct C08;

#[derive(Default)]
struct Tally {
    events: u64,
    lists: u64,
    sound_checked: u64,
    sound_nonvacuous: u64,
    cand_dict: u64,
    cand_suffix: u64,
    complete_checked: u64,
    complete_obligations: u64,
    unspecified_join: u64,
    cells: BTreeMap<&'static str, u64>,
}

fn flush(t: &Tally, out: &mut Out) {
    out.count("evaluations", t.events);
    out.count("lists_judged", t.lists);
    out.count("soundness.checked", t.sound_checked);
    out.count("soundness.nonvacuous", t.sound_nonvacuous);
    out.count("candidates_explained_as_dictionary_match", t.cand_dict);
    out.count("candidates_explained_as_suffix_built", t.cand_suffix);
    out.count("completeness.base+suffix_lists", t.complete_checked);
    out.count("completeness.obligations", t.complete_obligations);
    out.count("completeness.unspecified_join_rare_letter", t.unspecified_join);
    for (k, n) in &t.cells {
        out.count(&format!("join_cell.{k}"), *n);
    }
}

fn shape(text: &str) -> String {
    let s: String = text.chars().map(|c| if c.is_ascii_alphabetic() { 'w' } else if c.is_ascii_digit() { '9' } else { c }).collect();
    let mut out = String::new();
    for c in s.chars() {
        if c == 'w' && out.ends_with('w') {
            continue;
        }
        out.push(c);
        if out.len() > 8 {
            break;
        }
    }
    out
}

/// Soundness of one returned list (the text has just been typed; `list` is what came back).
fn judge_sound(o: &mut PhonOracle, spec: &CfgSpec, user: Option<&HashMap<String, String>>, text: &str, list: &[String], out: &mut Out, t: &mut Tally) -> View {
    t.lists += 1;
    t.sound_checked += 1;
    let v = classify(o, spec, text, list, user);
    let mut nv = false;
    for (x, c) in list.iter().zip(&v.classes) {
        match c {
            Class::Explained(w) => {
                if w.iter().any(|y| matches!(y, Why::Dict(_))) {
                    t.cand_dict += 1;
                    nv = true;
                }
                if w.iter().any(|y| matches!(y, Why::Suffix(_, _))) {
                    t.cand_suffix += 1;
                    nv = true;
                }
            }
            Class::Unexplained(m) => {
                out.violation("justified", format!("c08:unjustified:shape={}:{}", shape(text), spec.short()),
                              json!({"kind": "text", "cfg": spec.to_json(), "text": text, "user_autocorrect": user.is_some()}),
                              format!("candidate {x:?} (middle part {m:?}) is the auto-correct entry, the transliteration {:?}, an emoji, the raw text, a dictionary word matching the Avro pattern of {:?}, or a direct candidate of a proper prefix joined to a known suffix", v.translit, v.word),
                              format!("no explanation; list = {list:?}"));
            }
            Class::Unwrapped => {
                out.violation("justified", format!("c08:unwrapped:shape={}:{}", shape(text), spec.short()),
                              json!({"kind": "text", "cfg": spec.to_json(), "text": text, "user_autocorrect": user.is_some()}),
                              format!("candidate {x:?} carries the wrapping {:?} … {:?} of the typed text", v.pre, v.post), format!("list = {list:?}"));
            }
            _ => {}
        }
    }
    if nv {
        t.sound_nonvacuous += 1;
    }
    v
}

fn type_text_list(sess: &Sess, text: &str) -> Result<Option<Vec<String>>, Panic> {
    let s = sess.type_text_protocol(text)?;
    Ok(s.and_then(|s| if s.is_lonely() { None } else { Some(s.get_suggestions().to_vec()) }))
}

struct Trie {
    next: BTreeMap<char, usize>,
    terminal: bool,
}

fn build_trie(keys: &[String]) -> Vec<Trie> {
    let mut nodes = vec![Trie { next: BTreeMap::new(), terminal: false }];
    for k in keys {
        let mut cur = 0;
        for c in k.chars() {
            cur = match nodes[cur].next.get(&c) {
                Some(&n) => n,
                None => {
                    nodes.push(Trie { next: BTreeMap::new(), terminal: false });
                    let n = nodes.len() - 1;
                    nodes[cur].next.insert(c, n);
                    n
                }
            };
        }
        nodes[cur].terminal = true;
    }
    nodes
}

/// Completeness walk: `lead`+base typed once (list observed), then every suffix key as a trie walk.
/// `keep` filters the suffix keys visited (quick tier strides them).
#[allow(clippy::too_many_arguments)]
fn walk_base(o: &mut PhonOracle, sess: &Sess, user: Option<&HashMap<String, String>>, lead: &str, base: &str, trail: &str, sfx: &[String], out: &mut Out, t: &mut Tally) {
    let spec = sess.spec;
    let case = |suffix: &str| json!({"kind": "base+suffix", "cfg": spec.to_json(), "lead": lead, "base": base, "suffix": suffix, "trail": trail, "user_autocorrect": user.is_some()});
    let r = (|| -> Result<(), Panic> {
        let text_b = format!("{lead}{base}");
        let Some(lb) = type_text_list(sess, &text_b)? else { return Ok(()) };
        t.events += text_b.len() as u64;
        let vb = judge_sound(o, &spec, user, &text_b, &lb, out, t);
        if vb.word != base {
            // not a word on its own under this wrapping
            sess.finish()?;
            return Ok(());
        }
        let direct = vb.direct_middles(&lb);
        let trie = build_trie(sfx);
        // iterative DFS; stack of (node, iterator position)
        let mut path = String::new();
        let mut stack: Vec<(usize, Vec<(char, usize)>, usize)> = vec![(0, trie[0].next.iter().map(|(c, n)| (*c, *n)).collect(), 0)];
        while let Some(top) = stack.last_mut() {
            if top.2 >= top.1.len() {
                stack.pop();
                if !path.is_empty() {
                    path.pop();
                    t.events += 1;
                    let _ = sess.bs(false)?;
                }
                continue;
            }
            let (c, n) = top.1[top.2];
            top.2 += 1;
            path.push(c);
            t.events += 1;
            let s = sess.key(kc(c), 0, 0)?;
            if trie[n].terminal {
                let word = format!("{base}{path}");
                if word.len() > 2 && !s.is_lonely() {
                    // the list for lead+base+suffix (+trail typed on top, then removed again)
                    let mut list = s.get_suggestions().to_vec();
                    let mut text = format!("{lead}{word}");
                    if !trail.is_empty() {
                        let mut last = None;
                        for ch in trail.chars() {
                            last = Some(sess.key(kc(ch), 0, 0)?);
                            t.events += 1;
                        }
                        list = last.map(|l| l.get_suggestions().to_vec()).unwrap_or(list);
                        text.push_str(trail);
                        for _ in trail.chars() {
                            sess.bs(false)?;
                            t.events += 1;
                        }
                    }
                    let (_, w2, _, pre, post) = wrapping(o, &spec, &text);
                    if w2 == word {
                        t.complete_checked += 1;
                        let sf = o.suffix.get(path.as_str()).cloned().unwrap_or_default();
                        for d in &direct {
                            match join(d, &sf) {
                                None => t.unspecified_join += 1,
                                Some(j) => {
                                    t.complete_obligations += 1;
                                    *t.cells.entry(join_cell(d, &sf)).or_insert(0) += 1;
                                    let exp = format!("{pre}{j}{post}");
                                    out.distinct(fnv_str(&[&text, d]));
                                    if !list.contains(&exp) {
                                        out.violation("suffix-forms-complete", format!("c08:missing-joined:cell={}:suffix={}:{}", join_cell(d, &sf), path, spec.short()), case(&path),
                                                      format!("{exp:?} = direct candidate {d:?} of {base:?} joined to {sf:?} (suffix {path:?}) is offered for {text:?}"),
                                                      format!("list = {list:?}; list for the base alone = {lb:?}"));
                                    }
                                }
                            }
                        }
                        if out.want_sample() && t.complete_checked % 997 == 3 {
                            out.sample(json!({"base": base, "suffix": path, "typed": text, "direct_candidates_of_base": direct, "list": list}));
                        }
                        // soundness of the suffixed list too (sampled: it is the expensive part)
                        if t.complete_checked % 7 == 0 {
                            judge_sound(o, &spec, user, &text, &list, out, t);
                        }
                    }
                }
            }
            stack.push((n, trie[n].next.iter().map(|(c, n)| (*c, *n)).collect(), 0));
        }
        sess.finish()?;
        Ok(())
    })();
    if let Err(p) = r {
        let _ = sess.finish();
        out.violation("suffix-forms-complete", format!("c08:panic@{}", p.loc), case("?"), "lists are produced".into(), format!("panic at {}: {}", p.loc, p.msg));
    }
}

impl Prop for C08 {
    fn id(&self) -> &'static str {
        "C08"
    }
    fn rule(&self) -> String {
        "soundness: every list of the C07 text sources (strided 1/3 in quick) plus every list seen in the completeness walks is classified candidate by candidate; \
         completeness: for each base (11 fixed bases whose candidates end in ৎ / ং / a vowel, `hongkong` and seed-chosen dictionary words with two ৎ/ং (2 in quick, all 33 in thorough), bundled auto-correct keys, dictionary-guided spellings, user auto-correct keys; 3 per shard quick, all in thorough; all lower-case strings of length <= 2 quick / 3 thorough with the one- and two-letter suffixes) \
         the base is typed once, its direct candidates are read off the observed list with O-dict, then the 737 suffix keys are walked as a trie (type a letter, judge, recurse, backspace); a tenth of the bases wrapped in punctuation/quotes. \
         distinct_nontrivial = distinct (typed text, direct candidate) obligations whose joined form was looked for."
            .into()
    }
    fn assumptions(&self) -> Vec<String> {
        vec![
            "O-dict as in C07; suffix.json read independently; joining rules written from the statement (rare letters ঌ ৠ ৡ ৄ ৢ ৣ unspecified)".into(),
            "the completeness obligation is taken from the list observed for the base alone in the same context, as the property's observe_at says".into(),
            "not claimed: that every dictionary match of the word itself is offered".into(),
        ]
    }
    fn shards(&self, tier: Tier) -> usize {
        tier.pick(16, 64)
    }
    fn minima(&self, _tier: Tier) -> Vec<(&'static str, u64)> {
        vec![
            ("soundness.nonvacuous", 5_000), ("candidates_explained_as_suffix_built", 5_000), ("completeness.obligations", 20_000),
            ("join_cell.plain", 10_000), ("join_cell.vowel+sign", 500), ("join_cell.khanda-ta", 20), ("join_cell.anusvara", 20),
        ]
    }
    fn run_shard(&self, env: &Env, out: &mut Out) {
        let mut o = match PhonOracle::new() {
            Ok(o) => o,
            Err(e) => {
                out.note(format!("oracle: {e}"));
                return;
            }
        };
        let c = match c07::mk(env, "c08") {
            Ok(c) => c,
            Err(p) => {
                out.violation("setup", format!("c08:setup-panic@{}", p.loc), json!({}), "context creation".into(), p.msg);
                return;
            }
        };
        let mut t = Tally::default();
        let mut rng = env.rng("c08");
        let thorough = env.tier == Tier::Thorough;
        let nctx = c.v.len();
        // ---- soundness over the text sources
        let texts = c07::text_sources(&mut o, env, &mut rng);
        let stride = env.tier.pick(3, 1);
        for (i, tx) in texts.iter().enumerate() {
            if !env.mine(i) || (i / env.nshards) % stride != 0 {
                continue;
            }
            let (sess, u) = &c.v[(i / env.nshards) % nctx];
            out.begin_case(|| json!({"kind": "text", "cfg": sess.spec.to_json(), "text": tx, "user_autocorrect": u}));
            t.events += tx.len() as u64;
            match type_finish(sess, tx) {
                Ok(s) if !s.is_lonely() => {
                    let list = s.get_suggestions().to_vec();
                    judge_sound(&mut o, &sess.spec, if *u { Some(&c.user) } else { None }, tx, &list, out, &mut t);
                }
                Ok(_) => {}
                Err(p) => {
                    let _ = sess.finish();
                    out.violation("justified", format!("c08:panic@{}", p.loc), json!({"kind": "text", "cfg": sess.spec.to_json(), "text": tx, "user_autocorrect": u}), "a list".into(), format!("panic at {}: {}", p.loc, p.msg));
                }
            }
        }
        // ---- completeness walks
        let mut sfx: Vec<String> = o.suffix.keys().filter(|k| typeable(k)).cloned().collect();
        sfx.sort();
        let mut bases: Vec<String> = o.ac.keys().filter(|k| !k.is_empty() && k.chars().all(|c| c.is_ascii_alphanumeric())).cloned().collect();
        bases.sort();
        // bases whose candidates end in ৎ / ং / a vowel, so that all joining cells are reached in every tier
        let mut special: Vec<String> = vec!["hothat".into(), "ebong".into(), "ami".into(), "tumi".into(), "bangla".into(), "sesh".into(), "amar".into(), "jogot".into(), "rong".into(), "shong".into(), "kingbodonti".into()];
        // words ending in ৎ / ng with another one earlier (only the last one changes when a suffix is joined): all in
        // thorough, "hongkong" plus two chosen by the seed in quick (with a third of the suffixes there)
        let nfull = special.len();
        {
            let mut dbl: Vec<String> = o.tables.values().flatten().filter(|w| {
                let cs: Vec<char> = w.chars().collect();
                matches!(cs.last(), Some('ৎ') | Some('ং')) && cs[..cs.len() - 1].iter().any(|c| *c == 'ৎ' || *c == 'ং')
            }).cloned().collect();
            dbl.sort();
            dbl.dedup();
            out.max("dictionary_words_with_two_khanda_ta_or_anusvara", dbl.len() as u64);
            special.push("hongkong".into());
            // the oracle match of a spelling scans the dictionary: in quick only the words chosen by the seed are romanised
            let take = if thorough { dbl.len() } else { 4.min(dbl.len()) };
            let mut added = 0;
            for k in 0..take {
                let w = &dbl[(env.seed as usize * 4 + k) % dbl.len()];
                if let Some(r) = romanise(w) {
                    if r.len() <= 14 && !special.contains(&r) && o.is_dict_match(&r, w) {
                        special.push(r);
                        added += 1;
                        if !thorough && added == 2 {
                            break;
                        }
                    }
                }
            }
        }
        special.extend(c.user.keys().cloned());
        let mut r2 = Rng::new(env.seed ^ 0xC08);
        let guided: Vec<String> = dict_guided(&mut o, &mut r2, if thorough { 1500 } else { 64 }).into_iter().map(|(s, _)| s).collect();
        let mut work: Vec<String> = special.clone();
        if thorough {
            work.extend(bases.iter().cloned());
            work.extend(guided);
        } else {
            // 2 auto-correct keys + 1 guided spelling per shard, chosen by seed
            for k in 0..(2 * env.nshards) {
                work.push(bases[(r2.below(bases.len()) + k) % bases.len()].clone());
            }
            work.extend(guided.into_iter().take(env.nshards));
        }
        let main = &c.v[0];
        let wrapped = &c.v[3]; // English + smart quotes
        let userctx = &c.v[6];
        for (i, b) in work.iter().enumerate() {
            if !env.mine(i) {
                continue;
            }
            let sfx_here: Vec<String> = if thorough || i < nfull || (i >= nfull + 3 && i < special.len()) { sfx.clone() } else { sfx.iter().enumerate().filter(|(j, _)| (j + i) % 3 == 0).map(|(_, s)| s.clone()).collect() };
            out.begin_case(|| json!({"kind": "base+suffix", "base": b}));
            if c.user.contains_key(b) {
                walk_base(&mut o, &userctx.0, Some(&c.user), "", b, "", &sfx_here, out, &mut t);
            } else if i % 10 == 7 {
                let (l, r) = WRAPS[1 + i % 4];
                walk_base(&mut o, &wrapped.0, None, l, b, r, &sfx_here, out, &mut t);
            } else {
                walk_base(&mut o, &main.0, None, "", b, "", &sfx_here, out, &mut t);
            }
        }
        // short lower-case bases x one- and two-letter suffixes
        let lower: Vec<char> = ('a'..='z').collect();
        let short_sfx: Vec<String> = sfx.iter().filter(|s| s.len() <= 2).cloned().collect();
        let shorts = strings_upto(&lower, env.tier.pick(2, 3));
        for (i, b) in shorts.iter().enumerate() {
            if !env.mine(i) {
                continue;
            }
            out.begin_case(|| json!({"kind": "base+suffix", "base": b, "short": true}));
            walk_base(&mut o, &main.0, None, "", b, "", &short_sfx, out, &mut t);
        }
        flush(&t, out);
    }
    fn replay(&self, env: &Env, case: &Value, out: &mut Out) {
        let Ok(mut o) = PhonOracle::new() else { return };
        let user = c07::user_autocorrect();
        let Some(spec) = case.get("cfg").and_then(CfgSpec::from_json) else { return };
        let u = case.get("user_autocorrect").and_then(|b| b.as_bool()).unwrap_or(false);
        let root = env.root("c08");
        fresh_root(&root);
        if u {
            c07::write_user_autocorrect(&root, &user);
        }
        let Ok(sess) = Sess::new(spec, &root) else { return };
        let g = |k: &str| case.get(k).and_then(|v| v.as_str()).unwrap_or("").to_string();
        let mut t = Tally::default();
        let uo = if u { Some(&user) } else { None };
        if g("kind") == "text" {
            let tx = g("text");
            if let Ok(s) = type_finish(&sess, &tx) {
                if !s.is_lonely() {
                    let list = s.get_suggestions().to_vec();
                    judge_sound(&mut o, &spec, uo, &tx, &list, out, &mut t);
                }
            }
        } else {
            let sfx = vec![g("suffix")];
            walk_base(&mut o, &sess, uo, &g("lead"), &g("base"), &g("trail"), &sfx, out, &mut t);
        }
        flush(&t, out);
    }
}
