//! C14 — old vowel-sign order typing yields the same text as Unicode-order typing.
//! Differential monitor (the property is stated as an equivalence) plus the
//! pending-sign clauses (not shown, counts as a session, discarded by one backspace).

use crate::base::*;
use crate::fixedkit::*;
use crate::oracle::layout::LayoutOracle;
use crate::out::*;
use crate::prop::Prop;
use serde_json::{json, Value};

pub struct C14;

type K = (u16, u8);

#[derive(Clone, Debug)]
struct Syl {
    /// keys in Unicode order
    uni: Vec<K>,
    /// typewriter order: keys typed before the cluster (the left-standing sign), then the rest
    pre: Vec<K>,
    rest: Vec<K>,
    desc: String,
    /// numbers k such that after the left-standing sign and the first k keys of `rest` the sign is waiting again (the k-th
    /// key was the hasanta key inside the cluster: the sign is lifted over it and waits for the next consonant)
    lifted_at: Vec<usize>,
}

fn spec_for(bits: u8, order: bool) -> CfgSpec {
    let mut o = 0;
    if bits & 1 != 0 {
        o |= O_VOWEL;
    }
    if bits & 2 != 0 {
        o |= O_CHANDRA;
    }
    if bits & 4 != 0 {
        o |= O_TKAR;
    }
    if bits & 8 != 0 {
        o |= O_REPH;
    }
    if order {
        o |= O_KARORDER;
    }
    CfgSpec::new(Lay::Verif, o)
}

fn syllables(o: &LayoutOracle, reph_on: bool) -> Vec<Syl> {
    let k = |v: &str| -> K {
        let s = sym(o, v);
        (s.code, s.md)
    };
    let h = k("\u{09CD}");
    // (keys of the cluster, keys typed after the cluster but before any following sign, description)
    let mut clusters: Vec<(Vec<K>, Vec<K>, &str)> = vec![
        (vec![k("ক")], vec![], "ক"),
        (vec![k("র")], vec![], "র"),
        (vec![k("ক"), h, k("ক")], vec![], "ক্ক"),
        (vec![k("ক"), k(ROFOLA)], vec![], "ক্র"),
        (vec![k("ক"), k(ZOFOLA)], vec![], "ক্য"),
        (vec![k("র"), k(ZOFOLA)], vec![], "র+zofola"),
        (vec![k("স"), h, k("ট"), k(ROFOLA)], vec![], "স্ট্র"),
        (vec![k("ক\u{09CD}ষ")], vec![], "ক্ষ(one key)"),
        (vec![k("ক"), h, k("ক"), h, k("ক")], vec![], "ক্ক্ক"),
        (vec![k("ক"), k(ROFOLA), k(ZOFOLA)], vec![], "ক্র্য"),
    ];
    if reph_on {
        // old-style reph: the reph key is pressed after the cluster
        clusters.push((vec![k("ক")], vec![k(REPH)], "ক+reph-key(old style)"));
        clusters.push((vec![k("ক"), h, k("ত")], vec![k(REPH)], "ক্ত+reph-key(old style)"));
    } else {
        clusters.push((vec![k(REPH), k("ক")], vec![], "reph-key+ক"));
    }
    // (name, Unicode-order keys, typewriter keys before the cluster, typewriter keys after it)
    let kars: Vec<(&str, Vec<K>, Vec<K>, Vec<K>)> = vec![
        ("none", vec![], vec![], vec![]),
        ("aa", vec![k("া")], vec![], vec![k("া")]),
        ("i", vec![k("ি")], vec![k("ি")], vec![]),
        ("ii", vec![k("ী")], vec![], vec![k("ী")]),
        ("u", vec![k("ু")], vec![], vec![k("ু")]),
        ("rri", vec![k("ৃ")], vec![], vec![k("ৃ")]),
        ("e", vec![k("ে")], vec![k("ে")], vec![]),
        ("oi", vec![k("ৈ")], vec![k("ৈ")], vec![]),
        ("o=e..aa", vec![k("ো")], vec![k("ে")], vec![k("া")]),
        ("ou=e..ou", vec![k("ৌ")], vec![k("ে")], vec![k("ৌ")]),
        ("ou=e..aumark", vec![k("ৌ")], vec![k("ে")], vec![k("\u{09D7}")]),
    ];
    let mut out = vec![];
    for (cl, after, cd) in &clusters {
        for (kn, uni, pre, post) in &kars {
            for ch in [false, true] {
                let mut u = cl.clone();
                u.extend(after);
                u.extend(uni);
                let mut rest = cl.clone();
                rest.extend(after);
                rest.extend(post);
                if ch {
                    u.push(k("\u{0981}"));
                    rest.push(k("\u{0981}"));
                }
                let lifted_at: Vec<usize> = if pre.is_empty() { vec![] } else { (1..cl.len()).filter(|&i| cl[i - 1] == h).collect() };
                out.push(Syl { uni: u, pre: pre.clone(), rest, desc: format!("{cd}+{kn}{}", if ch { "+chandra" } else { "" }), lifted_at });
            }
        }
    }
    // an independent vowel typed as hasanta + sign (the rule no option switches off): same keys in both orders
    for (v, name) in [("ু", "hasanta+u=উ"), ("া", "hasanta+aa=আ"), ("ি", "hasanta+i=ই"), ("ে", "hasanta+e=এ")] {
        out.push(Syl { uni: vec![h, k(v)], pre: vec![], rest: vec![h, k(v)], desc: name.to_string(), lifted_at: vec![] });
    }
    // an explicit hasanta that ends the previous syllable (doubled hasanta, or hasanta + the non-joiner key): same keys in
    // both orders; a left-standing sign typed after it waits for the next consonant like anywhere else
    // (always on a bare consonant: after a vowel sign a hasanta key means "the conjunct goes on" in typewriter order)
    out.push(Syl { uni: vec![k("ক"), h, h], pre: vec![], rest: vec![k("ক"), h, h], desc: "ক+explicit-hasanta(doubled)".to_string(), lifted_at: vec![] });
    out.push(Syl { uni: vec![k("ক"), h, k("\u{200C}")], pre: vec![], rest: vec![k("ক"), h, k("\u{200C}")], desc: "ক+explicit-hasanta(+ZWNJ key)".to_string(), lifted_at: vec![] });
    for v in ["আ", "ই", "এ", "!", ",", "১"] {
        out.push(Syl { uni: vec![k(v)], pre: vec![], rest: vec![k(v)], desc: v.to_string(), lifted_at: vec![] });
    }
    out
}

#[derive(Default)]
struct Tally {
    words: u64,
    events: u64,
    equal_judged: u64,
    with_pending: u64,
    two_part: u64,
    pending_not_shown: u64,
    pending_flag: u64,
    pending_backspace: u64,
    with_bystanders: u64,
    lifted_backspace: u64,
}

fn case_json(bits: u8, word: &[&Syl], bs_at: Option<usize>) -> Value {
    let uni: Vec<Ev> = word.iter().flat_map(|s| s.uni.iter().map(|&(k, m)| Ev::Key(k, m, 0))).collect();
    let mut tw: Vec<Ev> = vec![];
    for (i, s) in word.iter().enumerate() {
        if bs_at == Some(i) {
            tw.extend(s.pre.iter().map(|&(k, m)| Ev::Key(k, m, 0)));
            tw.push(Ev::Bs);
        }
        tw.extend(s.pre.iter().map(|&(k, m)| Ev::Key(k, m, 0)));
        tw.extend(s.rest.iter().map(|&(k, m)| Ev::Key(k, m, 0)));
    }
    json!({"options_bits": bits, "cfg_unicode_order": spec_for(bits, false).to_json(), "cfg_typewriter_order": spec_for(bits, true).to_json(),
           "unicode_order_events": evs_to_json(&uni), "typewriter_order_events": evs_to_json(&tw),
           "syllables": word.iter().map(|s| s.desc.clone()).collect::<Vec<_>>(), "backspace_probe_at_syllable": bs_at})
}

/// Returns the final text typed in Unicode order on `off`.
fn type_uni(off: &Sess, word: &[&Syl], t: &mut Tally) -> Result<String, Panic> {
    let mut last = String::new();
    for s in word {
        for &(k, m) in &s.uni {
            t.events += 1;
            last = text_of(&off.key(k, m, 0)?);
        }
    }
    off.finish()?;
    Ok(last)
}

/// The composed text a context shows: the single string, or the first candidate of a list (which is the composed text, C15).
fn text_of(s: &riti::suggestion::Suggestion) -> String {
    if s.is_lonely() {
        s.get_lonely_suggestion().to_string()
    } else {
        s.get_suggestions().first().cloned().unwrap_or_default()
    }
}

fn judge(off: &Sess, on: &Sess, bits: u8, word: &[&Syl], bs_at: Option<usize>, out: &mut Out, t: &mut Tally) {
    t.words += 1;
    let case = || case_json(bits, word, bs_at);
    let a = match type_uni(off, word, t) {
        Ok(a) => a,
        Err(p) => {
            let _ = off.finish();
            out.violation("equivalence", format!("c14:panic-unicode-order@{}", p.loc), case(), "typing completes".into(), format!("panic at {}: {}", p.loc, p.msg));
            return;
        }
    };
    // typewriter order with the pending-sign clauses checked on the way
    let r = (|| -> Result<String, Panic> {
        let mut cur = String::new();
        for (i, s) in word.iter().enumerate() {
            if !s.pre.is_empty() {
                t.with_pending += 1;
                if s.desc.contains("e..") {
                    t.two_part += 1;
                }
            }
            let rounds = if bs_at == Some(i) && !s.pre.is_empty() { 2 } else { 1 };
            for round in 0..rounds {
                for &(k, m) in &s.pre {
                    t.events += 1;
                    let before = cur.clone();
                    let sg = on.key(k, m, 0)?;
                    let shown_now = text_of(&sg);
                    // (1) a sign waiting for its consonant is not shown
                    t.pending_not_shown += 1;
                    if shown_now != before {
                        out.violation("pending-sign-not-shown", format!("c14:pending-shown:{}", s.desc.split('+').nth(1).unwrap_or("")), case(),
                                      format!("pre-edit text stays {before:?} while the sign waits"), format!("{shown_now:?}"));
                    }
                    // (2) it counts as an ongoing session
                    t.pending_flag += 1;
                    if !on.ongoing()? {
                        out.violation("pending-sign-is-a-session", "c14:pending-flag".into(), case(), "ongoing_input_session() = true".into(), "false".into());
                    }
                    if rounds == 2 && round == 0 {
                        // (3) discarded by one backspace
                        t.pending_backspace += 1;
                        let b = on.bs(false)?;
                        let after_bs = text_of(&b);
                        let flag = on.ongoing()?;
                        if after_bs != before || b.is_empty() != before.is_empty() || flag != !before.is_empty() {
                            out.violation("pending-sign-discarded-by-backspace", "c14:pending-backspace-immediate".into(), case(),
                                          format!("text {before:?}, ongoing={}", !before.is_empty()), format!("text {after_bs:?}, empty={}, ongoing={flag}", b.is_empty()));
                        }
                    }
                    cur = if rounds == 2 && round == 0 { before } else { shown_now };
                }
            }
            for &(k, m) in &s.rest {
                t.events += 1;
                cur = text_of(&on.key(k, m, 0)?);
            }
        }
        on.finish()?;
        Ok(cur)
    })();
    let b = match r {
        Ok(b) => b,
        Err(p) => {
            let _ = on.finish();
            out.violation("equivalence", format!("c14:panic-typewriter-order@{}", p.loc), case(), "typing completes".into(), format!("panic at {}: {}", p.loc, p.msg));
            return;
        }
    };
    t.equal_judged += 1;
    out.distinct(fnv_str(&[&a, &bits.to_string()]));
    if out.want_sample() && t.words % 3001 == 5 {
        out.sample(json!({"case": case(), "text_unicode_order": a, "text_typewriter_order": b}));
    }
    if a != b {
        // signature: the syllables that carry a left-standing sign
        let mut descs: Vec<&str> = word.iter().filter(|s| !s.pre.is_empty()).map(|s| s.desc.as_str()).collect();
        descs.sort();
        descs.dedup();
        let culprit = if descs.is_empty() { "none".to_string() } else { descs.join("|") };
        let clause = if bs_at.is_some() { "pending-sign-discarded-by-backspace" } else { "equivalence" };
        out.violation(clause, format!("c14:{clause}:syll={culprit}:v{}c{}t{}r{}", bits & 1, (bits >> 1) & 1, (bits >> 2) & 1, (bits >> 3) & 1), case(),
                      format!("{a:?} (Unicode order, option off)"), format!("{b:?} (typewriter order, option on)"));
    }
}

/// A backspace while the sign waits *again*: it was placed on a consonant, lifted over the hasanta key that continues the
/// conjunct, and waits for the next consonant. One backspace discards it; the text shown (which does not contain it) stays,
/// and the word goes on without the sign: the same text as the same cluster keys typed without any sign in Unicode order.
fn judge_lifted(off: &Sess, on: &Sess, bits: u8, word: &[&Syl], at: usize, k: usize, out: &mut Out, t: &mut Tally) {
    let case = || {
        let mut c = case_json(bits, word, None);
        c["backspace_while_the_sign_waits_again"] = json!({"syllable": at, "after_cluster_keys": k, "syllable_desc": word[at].desc});
        c
    };
    let r = (|| -> Result<(String, String, bool, String, String, String), Panic> {
        let (mut a, mut b) = (String::new(), String::new());
        for s in &word[..at] {
            for &(kk, m) in &s.uni {
                a = text_of(&off.key(kk, m, 0)?);
            }
            for &(kk, m) in s.pre.iter().chain(s.rest.iter()) {
                b = text_of(&on.key(kk, m, 0)?);
            }
        }
        let s = word[at];
        for &(kk, m) in &s.rest[..k] {
            a = text_of(&off.key(kk, m, 0)?);
        }
        for &(kk, m) in s.pre.iter().chain(s.rest[..k].iter()) {
            b = text_of(&on.key(kk, m, 0)?);
        }
        let shown_while_waiting = b.clone();
        let after_bs = text_of(&on.bs(false)?);
        let flag = on.ongoing()?;
        // the word goes on: the next key of the cluster
        let (kk, m) = s.rest[k];
        let a2 = text_of(&off.key(kk, m, 0)?);
        let b2 = text_of(&on.key(kk, m, 0)?);
        off.finish()?;
        on.finish()?;
        Ok((a, after_bs, flag, a2, b2, shown_while_waiting))
    })();
    t.lifted_backspace += 1;
    match r {
        Ok((a, after_bs, flag, a2, b2, shown_while_waiting)) => {
            // the sign that waits again is not shown either
            if shown_while_waiting != a {
                out.violation("pending-sign-not-shown", format!("c14:lifted-sign-shown:{}", word[at].desc.split('+').nth(1).unwrap_or("")), case(),
                              format!("{a:?} while the sign waits again (the cluster so far, without the sign)"), format!("{shown_while_waiting:?}"));
            }
            if after_bs != a || !flag || a2 != b2 {
                out.violation("pending-sign-discarded-by-backspace", format!("c14:lifted-sign-backspace:{}", word[at].desc.split('+').nth(1).unwrap_or("")), case(),
                              format!("text {a:?} (the cluster so far, without the sign), ongoing=true, then {a2:?} after the next key"), format!("text {after_bs:?}, ongoing={flag}, then {b2:?}"));
            }
        }
        Err(p) => {
            let _ = off.finish();
            let _ = on.finish();
            out.violation("pending-sign-discarded-by-backspace", format!("c14:lifted-sign-backspace-panic@{}", p.loc), case(), "typing completes".into(), format!("panic at {}: {}", p.loc, p.msg));
        }
    }
}

fn flush(t: &Tally, out: &mut Out) {
    out.count("evaluations", t.events);
    out.count("words", t.words);
    out.count("equivalence_judged", t.equal_judged);
    out.count("syllables_with_pending_sign", t.with_pending);
    out.count("two_part_signs", t.two_part);
    out.count("pending_not_shown_checked", t.pending_not_shown);
    out.count("pending_flag_checked", t.pending_flag);
    out.count("pending_backspace_checked", t.pending_backspace);
    out.count("words_with_bystander_options", t.with_bystanders);
    out.count("backspace_while_a_lifted_sign_waits_checked", t.lifted_backspace);
}

impl Prop for C14 {
    fn id(&self) -> &'static str {
        "C14"
    }
    fn rule(&self) -> String {
        "words built from syllables = {12 cluster shapes: single consonant, hasanta conjuncts of 2-3, ro-fola, zo-fola, র+zo-fola, ro+zo-fola, one-key ক্ষ, reph (new style key first / old style key after the cluster)} \
         x {no sign, া ী ু ৃ, left-standing ি ে ৈ, two-part ো=ে…া, ৌ=ে…ৌ, ৌ=ে…ৗ} x [chandrabindu], plus independent vowels (typed directly, and as hasanta + sign: উ আ ই এ), a consonant closed by an explicit hasanta (doubled, or + ZWNJ key), punctuation, digit: all words of 1-2 syllables (a strided quarter of the 2-syllable words in quick), in thorough a strided eighth of all 3-syllable words, and random words of 3-5 syllables, \
         under the 16 settings of auto-vowel/auto-chandra/traditional/old-reph; typed in typewriter order with the option on and in Unicode order with it off (random words of 1-4 syllables again with the candidate list, smart quotes + English, ANSI, and list + ANSI + number pad switched on in both contexts; with a list the composed text is its first candidate); \
         every pending sign checked for not-shown / ongoing; a strided third of the words repeated with <sign, backspace> inserted before a syllable. \
         distinct_nontrivial = distinct (final text, options) pairs compared."
            .into()
    }
    fn assumptions(&self) -> Vec<String> {
        vec![
            "the property is an equivalence, so the reference is the real engine with the option off fed the Unicode-order keys".into(),
            "syllables are generated by the harness; a left-standing sign is always followed by its consonant cluster".into(),
        ]
    }
    fn shards(&self, tier: Tier) -> usize {
        tier.pick(16, 32)
    }
    fn minima(&self, _tier: Tier) -> Vec<(&'static str, u64)> {
        vec![("equivalence_judged", 20_000), ("syllables_with_pending_sign", 10_000), ("two_part_signs", 3_000), ("pending_backspace_checked", 1_000), ("pending_flag_checked", 10_000)]
    }
    fn run_shard(&self, env: &Env, out: &mut Out) {
        let Ok(oracle) = LayoutOracle::load(Lay::Verif) else {
            out.note("layout oracle failed".into());
            return;
        };
        let root = env.root("c14");
        fresh_root(&root);
        let mut t = Tally::default();
        let mut rng = env.rng("c14");
        let mut item = 0usize;
        for bits in 0..16u8 {
            let syl = syllables(&oracle, bits & 8 != 0);
            let n = syl.len();
            let (Ok(off), Ok(on)) = (Sess::new(spec_for(bits, false), &root), Sess::new(spec_for(bits, true), &root)) else {
                out.violation("setup", "c14:setup".into(), json!({"bits": bits}), "context creation".into(), "panic".into());
                continue;
            };
            // all 1- and 2-syllable words
            for i in 0..n {
                for j in 0..=n {
                    let mine = env.mine(item);
                    item += 1;
                    if !mine {
                        continue;
                    }
                    let word: Vec<&Syl> = if j == n { vec![&syl[i]] } else { vec![&syl[i], &syl[j]] };
                    if env.tier == Tier::Quick && j < n && (i * 31 + j * 7 + bits as usize) % 4 != 0 {
                        continue;
                    }
                    out.begin_case(|| case_json(bits, &word, None));
                    judge(&off, &on, bits, &word, None, out, &mut t);
                    if (i + j) % 3 == 0 {
                        for at in 0..word.len() {
                            if !word[at].pre.is_empty() {
                                out.begin_case(|| case_json(bits, &word, Some(at)));
                                judge(&off, &on, bits, &word, Some(at), out, &mut t);
                            }
                        }
                    }
                    if (i + j) % 2 == 0 {
                        for at in 0..word.len() {
                            for &k in &word[at].lifted_at {
                                out.begin_case(|| case_json(bits, &word, None));
                                judge_lifted(&off, &on, bits, &word, at, k, out, &mut t);
                            }
                        }
                    }
                }
            }
            // thorough: a strided eighth of all 3-syllable words
            if env.tier == Tier::Thorough {
                for i in 0..n {
                    for j in 0..n {
                        let mine = env.mine(item);
                        item += 1;
                        if !mine {
                            continue;
                        }
                        for k in 0..n {
                            if (i * 131 + j * 31 + k * 7 + bits as usize) % 8 != 0 {
                                continue;
                            }
                            let word: Vec<&Syl> = vec![&syl[i], &syl[j], &syl[k]];
                            out.begin_case(|| case_json(bits, &word, None));
                            judge(&off, &on, bits, &word, None, out, &mut t);
                        }
                    }
                }
            }
            // random longer words
            let nrand = env.tier.pick(400, 6000);
            for _ in 0..nrand {
                let len = rng.range(3, 5);
                let word: Vec<&Syl> = (0..len).map(|_| &syl[rng.below(n)]).collect();
                let at = if rng.chance(1, 3) { (0..len).find(|&a| !word[a].pre.is_empty()) } else { None };
                out.begin_case(|| case_json(bits, &word, at));
                judge(&off, &on, bits, &word, at, out, &mut t);
            }
            // the same with options the statement does not mention switched on in both contexts (candidate list, smart
            // quotes, ANSI output, English, number pad): with a list, the composed text is its first candidate
            for by in [O_FSUGG, O_FSUGG | O_SQ | O_ENG, O_ANSI, O_FSUGG | O_ANSI | O_NUMPAD] {
                let sp = |order: bool| CfgSpec { opts: spec_for(bits, order).opts | by, ..spec_for(bits, order) };
                let (Ok(off2), Ok(on2)) = (Sess::new(sp(false), &root), Sess::new(sp(true), &root)) else { continue };
                for r in 0..env.tier.pick(60, 600) {
                    let len = if r % 3 == 0 { 1 } else { rng.range(2, 4) };
                    let word: Vec<&Syl> = (0..len).map(|_| &syl[rng.below(n)]).collect();
                    let at = if rng.chance(1, 3) { (0..len).find(|&a| !word[a].pre.is_empty()) } else { None };
                    out.begin_case(|| {
                        let mut c = case_json(bits, &word, at);
                        c["bystander_options"] = json!(by);
                        c
                    });
                    t.with_bystanders += 1;
                    judge(&off2, &on2, bits, &word, at, out, &mut t);
                    for sy in 0..word.len() {
                        for &k in &word[sy].lifted_at {
                            judge_lifted(&off2, &on2, bits, &word, sy, k, out, &mut t);
                        }
                    }
                }
            }
        }
        flush(&t, out);
    }
    fn replay(&self, env: &Env, case: &Value, out: &mut Out) {
        // Replays are re-executed from the recorded event lists (the equivalence clause only).
        let bits = case.get("options_bits").and_then(|b| b.as_u64()).unwrap_or(0) as u8;
        let (Some(uni), Some(tw)) = (case.get("unicode_order_events").and_then(evs_from_json), case.get("typewriter_order_events").and_then(evs_from_json)) else { return };
        let root = env.root("c14");
        fresh_root(&root);
        let by = case.get("bystander_options").and_then(|b| b.as_u64()).unwrap_or(0) as u16;
        let sp = |order: bool| CfgSpec { opts: spec_for(bits, order).opts | by, ..spec_for(bits, order) };
        let (Ok(off), Ok(on)) = (Sess::new(sp(false), &root), Sess::new(sp(true), &root)) else { return };
        let run = |s: &Sess, evs: &[Ev]| -> Result<String, Panic> {
            let mut cur = String::new();
            for e in evs {
                match e {
                    Ev::Key(k, m, _) => cur = text_of(&s.key(*k, *m, 0)?),
                    Ev::Bs => cur = text_of(&s.bs(false)?),
                    _ => {}
                }
            }
            Ok(cur)
        };
        out.count("evaluations", (uni.len() + tw.len()) as u64);
        match (run(&off, &uni), run(&on, &tw)) {
            (Ok(a), Ok(b)) => {
                if a != b {
                    out.violation("equivalence", "c14:replay".into(), case.clone(), format!("{a:?} (Unicode order, option off)"), format!("{b:?} (typewriter order, option on)"));
                }
            }
            (ra, rb) => out.violation("equivalence", "c14:replay-panic".into(), case.clone(), "typing completes".into(), format!("{:?} / {:?}", ra.err(), rb.err())),
        }
    }
}
