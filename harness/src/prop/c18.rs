//! C18 — every emoticon and emoji name in the tables produces its emoji.
//! Complete table walks (emoticons, English names, Bengali names).

use crate::base::*;
use crate::oracle::layout::LayoutOracle;
use crate::oracle::phon::{split, PhonOracle};
use crate::out::*;
use crate::phonkit::*;
use crate::prop::c15::{keys_for, FKey};
use crate::prop::Prop;
use serde_json::{json, Value};

pub struct C18;

#[derive(Default)]
struct Tally {
    events: u64,
    emoticons_phonetic: u64,
    emoticons_fixed: u64,
    emoticons_fixed_with_erased_key: u64,
    names_phonetic: u64,
    names_fixed: u64,
    names_fixed_untypeable: u64,
    nonemoji_compared: u64,
    wrapped: u64,
    multi_emoji: u64,
}
fn flush(t: &Tally, out: &mut Out) {
    out.count("evaluations", t.events);
    out.count("emoticons_judged_phonetic", t.emoticons_phonetic);
    out.count("emoticons_judged_fixed", t.emoticons_fixed);
    out.count("emoticons_judged_fixed_with_a_key_erased_on_the_way", t.emoticons_fixed_with_erased_key);
    out.count("english_names_judged", t.names_phonetic);
    out.count("bengali_names_judged", t.names_fixed);
    out.count("bengali_names_untypeable_not_judged", t.names_fixed_untypeable);
    out.count("nonemoji_lists_compared_with_emoji_free_list", t.nonemoji_compared);
    out.count("wrapped_names_judged", t.wrapped);
    out.count("names_with_several_emoji", t.multi_emoji);
}

const PWRAPS: [(&str, &str); 7] = [("", ""), ("(", ")"), ("\"", "\""), ("'", "."), ("*[", "]!"), ("", ","), ("-", "?")];
const BWRAPS: [(&str, &str); 7] = [("", ""), ("(", ")"), ("\"", "\""), ("'", "।"), ("(", ":"), ("", ","), ("-", "?")];

/// Type `text` and end the word either by finish or by committing the first emoji of the list (so that what such a
/// commit leaves behind would show in the next table entry).
fn type_end(o: &PhonOracle, sess: &Sess, text: &str, commit_emoji: bool) -> Result<riti::suggestion::Suggestion, Panic> {
    let s = sess.type_text_protocol(text)?.expect("non-empty text");
    if commit_emoji && !s.is_lonely() {
        match s.get_suggestions().iter().position(|x| o.contains_emoji(x)) {
            Some(i) => sess.commit(i)?,
            None => sess.finish()?,
        }
    } else {
        sess.finish()?;
    }
    Ok(s)
}

fn list_of(s: &riti::suggestion::Suggestion) -> Vec<String> {
    if s.is_lonely() {
        vec![]
    } else {
        s.get_suggestions().to_vec()
    }
}

/// Emoji of `table` must all be in `list`, in table order.
fn check_table_order(list: &[String], wrapped: &[String]) -> Result<(), String> {
    let missing: Vec<&String> = wrapped.iter().filter(|e| !list.contains(e)).collect();
    if !missing.is_empty() {
        return Err(format!("missing {missing:?}"));
    }
    let got: Vec<&String> = list.iter().filter(|x| wrapped.contains(x)).collect();
    let exp: Vec<&String> = wrapped.iter().collect();
    if got != exp {
        return Err(format!("order {got:?}"));
    }
    Ok(())
}

struct PCtx {
    plain: Sess,
    eng_sq: Sess,
    ansi: Sess,
    ansi_sq: Sess,
}

fn phon_emoticon(o: &PhonOracle, c: &PCtx, e: &str, out: &mut Out, t: &mut Tally) {
    let emoji = o.emoticons[e];
    for sess in [&c.plain, &c.eng_sq] {
        let case = || json!({"method": "phonetic", "kind": "emoticon", "cfg": sess.spec.to_json(), "text": e});
        t.events += e.len() as u64;
        let list = match type_end(o, sess, e, t.emoticons_phonetic % 2 == 1) {
            Ok(s) => list_of(&s),
            Err(p) => {
                let _ = sess.finish();
                out.violation("emoticon-offers-emoji", format!("c18:panic@{}", p.loc), case(), "a list".into(), format!("panic at {}: {}", p.loc, p.msg));
                continue;
            }
        };
        t.emoticons_phonetic += 1;
        out.distinct(fnv_str(&["pe", e, &sess.spec.opts.to_string()]));
        if !list.iter().any(|x| x == emoji) {
            out.violation("emoticon-offers-emoji", format!("c18:emoticon-emoji-missing:phonetic:{e}"), case(), format!("{emoji:?} among the candidates of emoticon {e:?}"), format!("{list:?}"));
        }
        if !list.iter().any(|x| x == e) {
            out.violation("emoticon-literal-stays", format!("c18:emoticon-literal-missing:{e}"), case(), format!("the literal text {e:?} among the candidates"), format!("{list:?}"));
        }
        if out.want_sample() && t.emoticons_phonetic % 97 == 1 {
            out.sample(json!({"method": "phonetic", "emoticon": e, "table_emoji": emoji, "candidates": list}));
        }
    }
}

fn phon_name(o: &PhonOracle, c: &PCtx, name: &str, wrap: (&str, &str), out: &mut Out, t: &mut Tally) {
    let text = format!("{}{}{}", wrap.0, name, wrap.1);
    if o.emoticons.contains_key(text.as_str()) {
        return; // the emoticon reading wins by design; judged as an emoticon
    }
    let table = o.emojis[name];
    if split(name, false).1 != name {
        // the name can never be the word part of a typed text: only the reachability clause is judged, once
        if wrap.0.is_empty() && wrap.1.is_empty() {
            let sess = &c.plain;
            t.events += text.len() as u64;
            t.names_phonetic += 1;
            let list = type_finish(sess, &text).map(|s| list_of(&s)).unwrap_or_default();
            if !table.iter().all(|e| list.iter().any(|x| x.contains(e))) {
                out.violation("name-offers-all-emoji", format!("c18:name:phonetic:{name}:not-a-word"), json!({"method": "phonetic", "kind": "name", "cfg": sess.spec.to_json(), "name": name, "text": text}),
                              format!("emoji {table:?} offered when the name {name:?} is typed"), format!("{list:?}"));
            }
        }
        return;
    }
    for (sess, ansi) in [(&c.plain, &c.ansi), (&c.eng_sq, &c.ansi_sq)] {
        let spec = sess.spec;
        let case = || json!({"method": "phonetic", "kind": "name", "cfg": spec.to_json(), "name": name, "text": text});
        t.events += 2 * text.len() as u64;
        let (list, free) = match (type_end(o, sess, &text, t.names_phonetic % 2 == 1), type_finish(ansi, &text)) {
            (Ok(a), Ok(b)) => (list_of(&a), list_of(&b)),
            (ra, rb) => {
                let _ = sess.finish();
                let _ = ansi.finish();
                let p = ra.err().or(rb.err()).unwrap();
                out.violation("name-offers-all-emoji", format!("c18:panic@{}", p.loc), case(), "a list".into(), format!("panic at {}: {}", p.loc, p.msg));
                continue;
            }
        };
        t.names_phonetic += 1;
        if !wrap.0.is_empty() || !wrap.1.is_empty() {
            t.wrapped += 1;
        }
        if table.len() > 1 {
            t.multi_emoji += 1;
        }
        out.distinct(fnv_str(&["pn", &text, &spec.opts.to_string()]));
        let (lead, _word, trail) = split(&text, false);
        let (mut pre, mut post) = (o.avro(&lead), o.avro(&trail));
        if spec.has(O_SQ) {
            pre = curl_open(&pre);
            post = curl_close(&post);
        }
        let wrapped: Vec<String> = table.iter().map(|e| format!("{pre}{e}{post}")).collect();
        if let Err(why) = check_table_order(&list, &wrapped) {
            out.violation("name-offers-all-emoji", format!("c18:name:phonetic:{name}:{}", if why.starts_with("missing") { "missing" } else { "order" }), case(),
                          format!("all of {wrapped:?} offered, in table order, wrapped like the word"), format!("{why}; list {list:?}"));
        }
        // non-emoji candidates = the emoji-free list (ANSI context, same other options; English is masked there)
        let non: Vec<&String> = list.iter().filter(|x| !wrapped.contains(x) && !(spec.english() && **x == text)).collect();
        let fr: Vec<&String> = free.iter().collect();
        t.nonemoji_compared += 1;
        if non != fr {
            out.violation("emoji-do-not-disturb-other-candidates", format!("c18:nonemoji-differs:phonetic:{}", spec.short()), case(),
                          format!("non-emoji candidates equal the emoji-free list {free:?}"), format!("{non:?} (full list {list:?})"));
        }
    }
}

fn fixed_name(o: &PhonOracle, rev: &std::collections::HashMap<char, FKey>, plain: &Sess, eng_sq: &Sess, ansi: &Sess, check: &Sess, name: &str, wrap: (&str, &str), out: &mut Out, t: &mut Tally) {
    let text = format!("{}{}{}", wrap.0, name, wrap.1);
    let Some(keys) = keys_for(rev, &text) else {
        t.names_fixed_untypeable += 1;
        return;
    };
    // typeable iff some key sequence composes exactly it with helpers off
    let typed = (|| -> Result<String, Panic> {
        let mut last = String::new();
        for &(k, m, _) in &keys {
            last = check.key(k, m, 0)?.get_lonely_suggestion().to_string();
        }
        check.finish()?;
        Ok(last)
    })();
    if typed.as_deref().ok() != Some(text.as_str()) {
        let _ = check.finish();
        t.names_fixed_untypeable += 1;
        return;
    }
    let table = o.bn_emojis[name];
    let raw: String = keys.iter().map(|k| k.2).collect();
    if split(name, true).1 != name {
        if wrap.0.is_empty() && wrap.1.is_empty() {
            t.names_fixed += 1;
            let mut last = None;
            for &(k, m, _) in &keys {
                last = plain.key(k, m, 0).ok();
            }
            let _ = plain.finish();
            let list = last.map(|l| list_of(&l)).unwrap_or_default();
            if !table.iter().all(|e| list.iter().any(|x| x.contains(e))) {
                out.violation("name-offers-all-emoji", format!("c18:name:fixed:{name}:not-a-word"), json!({"method": "fixed", "kind": "name", "cfg": plain.spec.to_json(), "name": name, "text": text}),
                              format!("emoji {table:?} offered when the name {name:?} is typed"), format!("{list:?}"));
            }
        }
        return;
    }
    for sess in [plain, eng_sq] {
        let spec = sess.spec;
        let case = || {
            let evs: Vec<Ev> = keys.iter().map(|&(k, m, _)| Ev::Key(k, m, 0)).collect();
            json!({"method": "fixed", "kind": "name", "cfg": spec.to_json(), "name": name, "text": text, "events": evs_to_json(&evs), "table_emoji_count": table.len()})
        };
        t.events += 2 * keys.len() as u64;
        let run = |s: &Sess| -> Result<Vec<String>, Panic> {
            let mut last = None;
            for &(k, m, _) in &keys {
                last = Some(s.key(k, m, 0)?);
            }
            s.finish()?;
            Ok(last.map(|l| list_of(&l)).unwrap_or_default())
        };
        let (list, free) = match (run(sess), run(ansi)) {
            (Ok(a), Ok(b)) => (a, b),
            (ra, rb) => {
                let _ = sess.finish();
                let _ = ansi.finish();
                let p = ra.err().or(rb.err()).unwrap();
                out.violation("name-offers-all-emoji", format!("c18:panic@{}", p.loc), case(), "a list".into(), format!("panic at {}: {}", p.loc, p.msg));
                continue;
            }
        };
        if o.emoticons.contains_key(raw.as_str()) {
            continue;
        }
        t.names_fixed += 1;
        if !wrap.0.is_empty() || !wrap.1.is_empty() {
            t.wrapped += 1;
        }
        if table.len() > 1 {
            t.multi_emoji += 1;
        }
        out.distinct(fnv_str(&["fn", &text, &spec.opts.to_string()]));
        let (lead, _w, trail) = split(&text, true);
        let (pre, post) = if spec.has(O_SQ) { (curl_open(&lead), curl_close(&trail)) } else { (lead.clone(), trail.clone()) };
        let wrapped: Vec<String> = table.iter().map(|e| format!("{pre}{e}{post}")).collect();
        if let Err(why) = check_table_order(&list, &wrapped) {
            let mut c = case();
            c["offered_emoji"] = json!(list.iter().filter(|x| wrapped.contains(x)).collect::<Vec<_>>());
            c["expected_emoji"] = json!(wrapped);
            c["list_len"] = json!(list.len());
            c["english"] = json!(spec.english());
            out.violation("name-offers-all-emoji", format!("c18:name:fixed:{name}:{}", if why.starts_with("missing") { "missing" } else { "order" }), c,
                          format!("all of {wrapped:?} offered, in table order, wrapped like the word"), format!("{why}; list {list:?}"));
        }
        // non-emoji candidates: a prefix of the emoji-free list (the cap of nine is a stated rule of its own).
        // The ANSI context does not curl differently: compare after un-curling when smart quotes are on in only one of them.
        let non: Vec<String> = list.iter().filter(|x| !wrapped.contains(x) && !(spec.english() && **x == raw && raw != text)).map(|x| uncurl(x)).collect();
        let fr: Vec<String> = free.iter().map(|x| uncurl(x)).collect();
        t.nonemoji_compared += 1;
        if !fr.starts_with(&non) {
            out.violation("emoji-do-not-disturb-other-candidates", format!("c18:nonemoji-differs:fixed:{}", spec.short()), case(),
                          format!("non-emoji candidates are a prefix of the emoji-free list {free:?}"), format!("{non:?} (full list {list:?})"));
        }
        if out.want_sample() && t.names_fixed % 211 == 1 {
            out.sample(json!({"method": "fixed", "bengali_name": name, "typed_as": text, "table_emoji": table, "candidates": list}));
        }
    }
}

/// `junk`: a key pressed before the character at this position and erased again by one backspace (None: straight typing).
fn fixed_emoticon(o: &PhonOracle, lo: &LayoutOracle, sess: &Sess, e: &str, junk: Option<(usize, char)>, out: &mut Out, t: &mut Tally) {
    let emoji = o.emoticons[e];
    let case = || json!({"method": "fixed", "kind": "emoticon", "cfg": sess.spec.to_json(), "text": e, "key_pressed_and_erased": junk.map(|(p, c)| json!({"before_position": p, "key": c.to_string()}))});
    t.events += e.len() as u64;
    let r = (|| -> Result<(Vec<String>, String), Panic> {
        let mut last = None;
        for (i, c) in e.chars().enumerate() {
            if let Some((p, j)) = junk {
                if p == i {
                    sess.key(kc(j), 0, 0)?;
                    last = Some(sess.bs(false)?);
                }
            }
            last = Some(sess.key(kc(c), 0, 0)?);
        }
        let st = sess.state();
        sess.finish()?;
        Ok((last.map(|l| list_of(&l)).unwrap_or_default(), st.get("typed").and_then(|t| t.as_str()).unwrap_or("").to_string()))
    })();
    match r {
        Err(p) => {
            let _ = sess.finish();
            out.violation("emoticon-offers-emoji", format!("c18:panic@{}", p.loc), case(), "a list".into(), format!("panic at {}: {}", p.loc, p.msg));
        }
        Ok((list, typed)) => {
            // in fixed mode the emoticon is looked up by the raw keys that produced text; keys without an assignment
            // contribute nothing, so the emoticon is only typeable when every key of it is assigned
            // (decided from the layout file, not from the engine's own record of the keys)
            let _ = typed;
            let assigned = |c: char| lo.value(kc(c), 0, sess.spec.has(O_NUMPAD)).map_or(false, |v| !v.is_empty());
            if !e.chars().all(assigned) || junk.map_or(false, |(_, j)| lo.value(kc(j), 0, false).map_or(true, |v| v.chars().count() != 1)) {
                return;
            }
            t.emoticons_fixed += 1;
            if junk.is_some() {
                t.emoticons_fixed_with_erased_key += 1;
            }
            out.distinct(fnv_str(&["fe", e]));
            if !list.iter().any(|x| x == emoji) {
                out.violation("emoticon-offers-emoji", format!("c18:emoticon-emoji-missing:fixed:{e}{}", if junk.is_some() { ":after-erased-key" } else { "" }), case(), format!("{emoji:?} among the candidates of emoticon {e:?}"), format!("{list:?}"));
            }
        }
    }
}

impl Prop for C18 {
    fn id(&self) -> &'static str {
        "C18"
    }
    fn rule(&self) -> String {
        "complete table walks: all typeable emoticons of the emojicon table in phonetic mode (2 option sets; words ended alternately by finish and by committing the first emoji) and in fixed mode (Probhat; each also with one extra key - a left-standing sign, a consonant, a mark - pressed and erased at a rotating position, alternately with old vowel-sign order on); all English emoji names in phonetic mode, bare and in 6 wrappings (all 7 in thorough; bare + 2 rotating in quick), \
         each in 2 option sets (plain; English + smart quotes) and compared with the ANSI (emoji-free) list of the same text; all Bengali emoji names in fixed mode through Probhat and the synthetic layout, same wrappings and option sets. \
         distinct_nontrivial = distinct (method, kind, text, options) table entries judged."
            .into()
    }
    fn assumptions(&self) -> Vec<String> {
        vec![
            "O-emoji = emojicon::internal::{emoticons, emojis, bn_emojis} (the tables riti links)".into(),
            "a Bengali name is typeable iff typing the reverse-mapped keys with all helpers off composes exactly it; untypeable names are counted, not judged".into(),
            "the emoji-free reference list is the ANSI context's list for the same text (equality in phonetic mode, prefix in fixed mode because of the cap of nine)".into(),
        ]
    }
    fn exhaustive(&self, tier: Tier) -> bool {
        tier == Tier::Thorough
    }
    fn minima(&self, _tier: Tier) -> Vec<(&'static str, u64)> {
        vec![("emoticons_judged_phonetic", 600), ("emoticons_judged_fixed", 100), ("emoticons_judged_fixed_with_a_key_erased_on_the_way", 50), ("english_names_judged", 5_000), ("bengali_names_judged", 3_000), ("wrapped_names_judged", 4_000), ("names_with_several_emoji", 500)]
    }
    fn classify(&self, classifier: &str, params: &Value, v: &Violation) -> bool {
        match classifier {
            // names that can never be the word part of a typed text (they consist of / start with punctuation)
            "name-is-not-a-word" => {
                let names: Vec<&str> = params.get("names").and_then(|n| n.as_array()).map(|a| a.iter().filter_map(|s| s.as_str()).collect()).unwrap_or_default();
                let fixed = v.case.get("method").and_then(|m| m.as_str()) == Some("fixed");
                v.clause == "name-offers-all-emoji"
                    && v.sig.ends_with(":not-a-word")
                    && v.case.get("name").and_then(|n| n.as_str()).map_or(false, |n| names.contains(&n) && split(n, fixed).1 != n)
            }
            // fixed mode: the list is capped at nine, so emoji beyond the cap are cut (the offered ones are the first of the table, in order)
            "fixed-cap-cuts-emoji" => {
                let (Some(off), Some(exp), Some(len)) = (v.case.get("offered_emoji").and_then(|x| x.as_array()), v.case.get("expected_emoji").and_then(|x| x.as_array()), v.case.get("list_len").and_then(|x| x.as_u64())) else { return false };
                v.clause == "name-offers-all-emoji" && len == 9 && !off.is_empty() && off.len() < exp.len() && exp[..off.len()] == off[..] && exp.len() + 1 > 9 - usize::from(v.case.get("english").and_then(|e| e.as_bool()).unwrap_or(false))
            }
            _ => false,
        }
    }
    fn run_shard(&self, env: &Env, out: &mut Out) {
        let Ok(o) = PhonOracle::new() else {
            out.note("oracle load failed".into());
            return;
        };
        let root = env.root("c18");
        fresh_root(&root);
        let mut t = Tally::default();
        let thorough = env.tier == Tier::Thorough;
        let p = |opts: u16| Sess::new(CfgSpec::new(Lay::Phonetic, O_PSUGG | opts), &root);
        let pc = match (p(0), p(O_ENG | O_SQ), p(O_ANSI), p(O_ANSI | O_SQ)) {
            (Ok(a), Ok(b), Ok(c), Ok(d)) => PCtx { plain: a, eng_sq: b, ansi: c, ansi_sq: d },
            _ => {
                out.violation("setup", "c18:setup".into(), json!({}), "context creation".into(), "panic".into());
                return;
            }
        };
        let mut emo: Vec<&str> = o.emoticons.keys().copied().filter(|e| typeable(e)).collect();
        emo.sort();
        for (i, e) in emo.iter().enumerate() {
            if env.mine(i) {
                out.begin_case(|| json!({"method": "phonetic", "kind": "emoticon", "text": e}));
                phon_emoticon(&o, &pc, e, out, &mut t);
            }
        }
        let mut names: Vec<&str> = o.emojis.keys().copied().filter(|n| typeable(n)).collect();
        names.sort();
        for (i, n) in names.iter().enumerate() {
            if !env.mine(i) {
                continue;
            }
            for (wi, w) in PWRAPS.iter().enumerate() {
                if thorough || wi == 0 || wi == 1 + i % 6 || wi == 1 + (i / 6 + 3) % 6 {
                    out.begin_case(|| json!({"method": "phonetic", "kind": "name", "name": n, "wrap": [w.0, w.1]}));
                    phon_name(&o, &pc, n, *w, out, &mut t);
                }
            }
        }
        drop(pc);
        for lay in [Lay::Probhat, Lay::Verif] {
            let Ok(lo) = LayoutOracle::load(lay) else { continue };
            let rev = lo.reverse();
            let f = |opts: u16| Sess::new(CfgSpec::new(lay, opts), &root);
            let (Ok(plain), Ok(eng_sq), Ok(ansi), Ok(check)) = (f(O_FSUGG), f(O_FSUGG | O_ENG | O_SQ), f(O_FSUGG | O_ANSI), f(0)) else {
                out.violation("setup", "c18:setup".into(), json!({}), "context creation".into(), "panic".into());
                return;
            };
            let mut bn: Vec<&str> = o.bn_emojis.keys().copied().collect();
            bn.sort();
            for (i, n) in bn.iter().enumerate() {
                if !env.mine(i) {
                    continue;
                }
                for (wi, w) in BWRAPS.iter().enumerate() {
                    if thorough || wi == 0 || (lay == Lay::Probhat && (wi == 1 + i % 6 || wi == 1 + (i / 6 + 3) % 6)) {
                        out.begin_case(|| json!({"method": "fixed", "kind": "name", "name": n, "wrap": [w.0, w.1], "layout": lay.name()}));
                        fixed_name(&o, &rev, &plain, &eng_sq, &ansi, &check, n, *w, out, &mut t);
                    }
                }
            }
            if lay == Lay::Probhat {
                let Ok(order) = f(O_FSUGG | O_KARORDER) else { return };
                for (i, e) in emo.iter().enumerate() {
                    if env.mine(i) {
                        fixed_emoticon(&o, &lo, &plain, e, None, out, &mut t);
                        // once more with a key pressed and erased on the way (a left-standing sign key, a consonant, a
                        // mark), with and without old vowel-sign order
                        let n = e.chars().count();
                        let k = i / env.nshards;
                        let junk = (k % n.max(1), ['[', 'k', 'i', '.', 'a'][k % 5]);
                        fixed_emoticon(&o, &lo, if k % 2 == 0 { &order } else { &plain }, e, Some(junk), out, &mut t);
                    }
                }
            }
        }
        flush(&t, out);
    }
    fn replay(&self, env: &Env, case: &Value, out: &mut Out) {
        let Ok(o) = PhonOracle::new() else { return };
        let root = env.root("c18");
        fresh_root(&root);
        let mut t = Tally::default();
        let g = |k: &str| case.get(k).and_then(|v| v.as_str()).unwrap_or("").to_string();
        let method = g("method");
        let kind = g("kind");
        if method == "phonetic" {
            let p = |opts: u16| Sess::new(CfgSpec::new(Lay::Phonetic, O_PSUGG | opts), &root);
            let (Ok(a), Ok(b), Ok(c), Ok(d)) = (p(0), p(O_ENG | O_SQ), p(O_ANSI), p(O_ANSI | O_SQ)) else { return };
            let pc = PCtx { plain: a, eng_sq: b, ansi: c, ansi_sq: d };
            if kind == "emoticon" {
                let e = g("text");
                if o.emoticons.contains_key(e.as_str()) {
                    phon_emoticon(&o, &pc, &e, out, &mut t);
                }
            } else {
                let name = g("name");
                let text = g("text");
                if let Some((l, r)) = text.split_once(name.as_str()) {
                    if o.emojis.contains_key(name.as_str()) {
                        phon_name(&o, &pc, &name, (l, r), out, &mut t);
                    }
                }
            }
        } else {
            let lay = case.get("cfg").and_then(CfgSpec::from_json).map(|c| c.lay).unwrap_or(Lay::Probhat);
            let Ok(lo) = LayoutOracle::load(lay) else { return };
            let rev = lo.reverse();
            let f = |opts: u16| Sess::new(CfgSpec::new(lay, opts), &root);
            let (Ok(plain), Ok(eng_sq), Ok(ansi), Ok(check)) = (f(O_FSUGG), f(O_FSUGG | O_ENG | O_SQ), f(O_FSUGG | O_ANSI), f(0)) else { return };
            if kind == "emoticon" {
                let e = g("text");
                if o.emoticons.contains_key(e.as_str()) {
                    let junk = case.get("key_pressed_and_erased").and_then(|j| Some((j.get("before_position")?.as_u64()? as usize, j.get("key")?.as_str()?.chars().next()?)));
                    let spec = case.get("cfg").and_then(CfgSpec::from_json).unwrap_or(plain.spec);
                    match Sess::new(spec, &root) {
                        Ok(s) => fixed_emoticon(&o, &lo, &s, &e, junk, out, &mut t),
                        Err(_) => fixed_emoticon(&o, &lo, &plain, &e, junk, out, &mut t),
                    }
                }
            } else {
                let name = g("name");
                let text = g("text");
                if let Some((l, r)) = text.split_once(name.as_str()) {
                    if o.bn_emojis.contains_key(name.as_str()) {
                        fixed_name(&o, &rev, &plain, &eng_sq, &ansi, &check, &name, (l, r), out, &mut t);
                    }
                }
            }
        }
        flush(&t, out);
    }
}
