//! C19 — the C interface hands out valid, independently owned, leak-free objects.
//! Engines: (1) Rust driver over all 33 symbols with shadow copies, run natively and under
//! AddressSanitizer + LeakSanitizer; (2) the same driver under Miri with a small data directory;
//! (3) a C driver compiled against include/riti.h, linked with libriti.a, under valgrind memcheck.

use crate::base::*;
use crate::out::*;
use crate::prop::Prop;
use serde_json::{json, Value};
use std::path::{Path, PathBuf};
use std::process::{Command, Stdio};
use std::time::{Duration, Instant};

pub struct C19;

const FFIDRV: &str = "/verif/ffidrv";
const SYMBOLS: [&str; 33] = [
    "riti_context_new_with_config", "riti_context_free", "riti_get_suggestion_for_key", "riti_context_candidate_committed", "riti_context_update_engine",
    "riti_context_ongoing_input_session", "riti_context_finish_input_session", "riti_context_backspace_event", "riti_suggestion_free", "riti_suggestion_get_suggestion",
    "riti_suggestion_get_lonely_suggestion", "riti_suggestion_get_auxiliary_text", "riti_suggestion_get_pre_edit_text", "riti_string_free", "riti_suggestion_previously_selected_index",
    "riti_suggestion_get_length", "riti_suggestion_is_lonely", "riti_suggestion_is_empty", "riti_config_new", "riti_config_free", "riti_config_set_layout_file",
    "riti_config_set_database_dir", "riti_config_set_suggestion_include_english", "riti_config_set_phonetic_suggestion", "riti_config_set_fixed_suggestion",
    "riti_config_set_fixed_auto_vowel", "riti_config_set_fixed_auto_chandra", "riti_config_set_fixed_traditional_kar", "riti_config_set_fixed_old_reph", "riti_config_set_fixed_numpad",
    "riti_config_set_fixed_old_kar_order", "riti_config_set_ansi_encoding", "riti_config_set_smart_quote",
];

fn target(name: &str) -> String {
    format!("{VERIF}/target/{name}")
}

struct Built {
    plain: Result<PathBuf, String>,
    asan: Result<PathBuf, String>,
    cdrv: Result<PathBuf, String>,
    miri: Result<(), String>,
}

fn run_logged(mut cmd: Command, log: &Path, timeout: Duration) -> Result<(Option<i32>, Option<i32>), String> {
    use std::os::unix::process::ExitStatusExt;
    let f = std::fs::File::create(log).map_err(|e| e.to_string())?;
    let f2 = f.try_clone().map_err(|e| e.to_string())?;
    cmd.stdin(Stdio::null()).stdout(f).stderr(f2);
    cmd.env("CARGO_NET_OFFLINE", "true");
    let mut child = cmd.spawn().map_err(|e| format!("spawn: {e}"))?;
    let t0 = Instant::now();
    loop {
        match child.try_wait() {
            Ok(Some(st)) => return Ok((st.code(), st.signal())),
            Ok(None) => {
                if t0.elapsed() > timeout {
                    let _ = child.kill();
                    let _ = child.wait();
                    return Err(format!("timed out after {}s", timeout.as_secs()));
                }
                std::thread::sleep(Duration::from_millis(30));
            }
            Err(e) => return Err(e.to_string()),
        }
    }
}

fn tail(log: &Path, n: usize) -> String {
    let s = std::fs::read_to_string(log).unwrap_or_default();
    let lines: Vec<&str> = s.lines().collect();
    lines[lines.len().saturating_sub(n)..].join("\n")
}

fn build_all(logs: &Path, want_miri: bool) -> Built {
    let mk = |args: &[&str], envs: &[(&str, &str)], dir: &str, log: &str| -> Result<(), String> {
        let mut c = Command::new("cargo");
        c.args(args).current_dir(dir);
        for (k, v) in envs {
            c.env(k, v);
        }
        let lp = logs.join(log);
        match run_logged(c, &lp, Duration::from_secs(1500))? {
            (Some(0), _) => Ok(()),
            other => Err(format!("build failed ({other:?}): {}", tail(&lp, 12))),
        }
    };
    std::thread::scope(|s| {
        let h1 = s.spawn(|| {
            mk(&["build", "--release", "--offline", "--target-dir", &target("ffi-plain")], &[], FFIDRV, "build-plain.log").map(|_| PathBuf::from(format!("{}/release/ffidrv", target("ffi-plain"))))
        });
        let h2 = s.spawn(|| {
            mk(&["+nightly", "build", "--release", "--offline", "--target", "x86_64-unknown-linux-gnu", "--target-dir", &target("ffi-asan")],
               &[("RUSTFLAGS", "-Zsanitizer=address -Cforce-frame-pointers=yes")], FFIDRV, "build-asan.log")
                .map(|_| PathBuf::from(format!("{}/x86_64-unknown-linux-gnu/release/ffidrv", target("ffi-asan"))))
        });
        let h3 = s.spawn(|| -> Result<PathBuf, String> {
            mk(&["build", "--release", "--offline", "--target-dir", &target("repo-rel")], &[], REPO, "build-libriti.log")?;
            let out = PathBuf::from(target("cdrv"));
            let mut c = Command::new("clang");
            c.args(["-gdwarf-4", "-O1", "-Wall", "-Werror=implicit-function-declaration", "-Werror=incompatible-pointer-types", "-Werror=int-conversion",
                    &format!("-I{REPO}/include"), &format!("{FFIDRV}/cdrv/drv.c"), &format!("{}/release/libriti.a", target("repo-rel")), "-lpthread", "-ldl", "-lm", "-o"]);
            c.arg(&out);
            let lp = logs.join("build-cdrv.log");
            match run_logged(c, &lp, Duration::from_secs(300))? {
                (Some(0), _) => Ok(out),
                other => Err(format!("clang failed ({other:?}): {}", tail(&lp, 12))),
            }
        });
        let h4 = s.spawn(|| {
            if !want_miri {
                return Ok(());
            }
            // builds the driver for Miri and runs zero calls
            mk(&["+nightly", "miri", "run", "--offline", "--target-dir", &target("ffi-miri"), "--", "1", "0", "small", "/dev/shm/verif-miri-warm", "0"],
               &[("MIRIFLAGS", "-Zmiri-disable-isolation")], FFIDRV, "build-miri.log")
        });
        Built { plain: h1.join().unwrap(), asan: h2.join().unwrap(), cdrv: h3.join().unwrap(), miri: h4.join().unwrap() }
    })
}

#[derive(Clone)]
struct Job {
    engine: &'static str,
    seed: u64,
    calls: u64,
    sessions: u64,
    /// run the deterministic accessor x variant x ANSI pass first
    scripted: bool,
}

struct JobResult {
    job: Job,
    log: PathBuf,
    status: Result<(Option<i32>, Option<i32>), String>,
    summary: Option<Value>,
    wall: f64,
}

fn job_command(j: &Job, b: &Built, scratch: &Path) -> Option<Command> {
    let root = scratch.join(format!("{}-{}", j.engine, j.seed));
    let _ = std::fs::remove_dir_all(&root);
    std::fs::create_dir_all(root.join("openbangla-keyboard")).ok()?;
    let args = |c: &mut Command, mode: &str| {
        c.arg(j.seed.to_string()).arg(j.calls.to_string()).arg(mode).arg(&root).arg(j.sessions.to_string());
        if j.scripted {
            c.arg("scripted");
        }
    };
    match j.engine {
        "native" => {
            let mut c = Command::new(b.plain.as_ref().ok()?);
            args(&mut c, "full");
            Some(c)
        }
        "asan" => {
            let mut c = Command::new(b.asan.as_ref().ok()?);
            args(&mut c, "full");
            c.env("ASAN_OPTIONS", "detect_leaks=1:halt_on_error=1:abort_on_error=1:detect_stack_use_after_return=1:symbolize=1");
            c.env("LSAN_OPTIONS", "exitcode=23");
            c.env("ASAN_SYMBOLIZER_PATH", "/usr/bin/llvm-symbolizer-14");
            Some(c)
        }
        "miri" => {
            b.miri.as_ref().ok()?;
            let mut c = Command::new("cargo");
            c.args(["+nightly", "miri", "run", "--offline", "--target-dir", &target("ffi-miri"), "--"]);
            args(&mut c, "small");
            c.current_dir(FFIDRV);
            c.env("MIRIFLAGS", "-Zmiri-disable-isolation");
            if j.calls >= 100 {
                c.env("FFIDRV_SECOND_CTX", "1");
            }
            Some(c)
        }
        "valgrind" => {
            let mut c = Command::new("valgrind");
            c.args(["--error-exitcode=9", "--leak-check=full", "--errors-for-leak-kinds=definite,indirect", "--show-leak-kinds=definite,indirect", "-q"]);
            c.arg(b.cdrv.as_ref().ok()?);
            c.arg(j.seed.to_string()).arg(j.calls.to_string()).arg(&root);
            Some(c)
        }
        _ => None,
    }
}

fn run_jobs(jobs: Vec<Job>, b: &Built, logs: &Path, scratch: &Path, par: usize) -> Vec<JobResult> {
    let queue = std::sync::Mutex::new(jobs.into_iter().rev().collect::<Vec<_>>());
    let results = std::sync::Mutex::new(vec![]);
    std::thread::scope(|s| {
        for _ in 0..par {
            s.spawn(|| loop {
                let Some(j) = queue.lock().unwrap().pop() else { break };
                let log = logs.join(format!("{}-{}.log", j.engine, j.seed));
                let t0 = Instant::now();
                let status = match job_command(&j, b, scratch) {
                    Some(c) => run_logged(c, &log, Duration::from_secs(match j.engine { "miri" => 5400, "valgrind" => 1800, "asan" => 900, _ => 300 })),
                    None => Err("engine not built".into()),
                };
                let summary = std::fs::read_to_string(&log).ok().and_then(|s| s.lines().rev().find(|l| l.starts_with('{') && (l.contains("\"ffidrv\"") || l.contains("\"cdrv\""))).and_then(|l| serde_json::from_str::<Value>(l).ok()));
                results.lock().unwrap().push(JobResult { job: j, log, status, summary, wall: t0.elapsed().as_secs_f64() });
            });
        }
    });
    results.into_inner().unwrap()
}

/// Turn one finished job into counters / violations.
fn judge_job(r: &JobResult, out: &mut Out) -> Result<(), String> {
    let j = &r.job;
    let text = std::fs::read_to_string(&r.log).unwrap_or_default();
    let case = json!({"engine": j.engine, "seed": j.seed, "calls": j.calls, "sessions": j.sessions, "scripted": j.scripted});
    let keep_log = |out: &mut Out| -> String {
        let dst = format!("{VERIF}/replays/C19-{}-{}.log", j.engine, j.seed);
        let _ = std::fs::copy(&r.log, &dst);
        out.note(format!("full log of the failing {} run: {dst}", j.engine));
        dst
    };
    let first_frame = |needle: &str| -> String {
        // first riti frame after the report header, for the signature
        let mut seen = false;
        for l in text.lines() {
            if l.contains(needle) {
                seen = true;
            }
            if seen {
                if let Some(i) = l.find("riti") {
                    let f: String = l[i..].chars().take_while(|c| !c.is_whitespace() && *c != '(').collect();
                    if f.contains("::") || f.starts_with("riti_") {
                        return f;
                    }
                }
            }
        }
        "?".into()
    };
    match &r.status {
        Err(e) if e.starts_with("timed out") => return Err(format!("{} seed {}: {e}", j.engine, j.seed)),
        Err(e) => return Err(format!("{} seed {}: {e}", j.engine, j.seed)),
        Ok((code, sig)) => {
            let asan = text.contains("ERROR: AddressSanitizer");
            let lsan = text.contains("ERROR: LeakSanitizer") || text.contains("detected memory leaks");
            let miri_ub = j.engine == "miri" && (text.contains("error: Undefined Behavior") || text.contains("error: memory leaked") || text.contains("error: unsupported operation") && false);
            let vg = j.engine == "valgrind" && *code == Some(9);
            if asan {
                let kind = text.lines().find(|l| l.contains("ERROR: AddressSanitizer")).map(|l| l.split("AddressSanitizer:").nth(1).unwrap_or("").split_whitespace().next().unwrap_or("?").to_string()).unwrap_or_default();
                let log = keep_log(out);
                out.violation("no-invalid-memory-access", format!("c19:asan:{kind}:{}", first_frame("ERROR: AddressSanitizer")), case, "no AddressSanitizer report".into(), format!("{kind}; see {log}: {}", tail(&r.log, 6)));
            } else if lsan {
                let log = keep_log(out);
                out.violation("no-leak", format!("c19:lsan:{}", first_frame("LeakSanitizer")), case, "no LeakSanitizer report after every object was freed".into(), format!("see {log}"));
            } else if miri_ub {
                let line = text.lines().find(|l| l.starts_with("error:")).unwrap_or("error").to_string();
                let log = keep_log(out);
                out.violation("no-invalid-memory-access", format!("c19:miri:{}", line.chars().take(80).collect::<String>()), case, "no Miri report".into(), format!("{line}; see {log}"));
            } else if vg {
                let line = text.lines().find(|l| l.contains("Invalid ") || l.contains("definitely lost") || l.contains("indirectly lost") || l.contains("Mismatched") || l.contains("uninitialised")).unwrap_or("valgrind error").to_string();
                let clause = if line.contains("lost") { "no-leak" } else { "no-invalid-memory-access" };
                let log = keep_log(out);
                out.violation(clause, format!("c19:valgrind:{}", line.split("==").last().unwrap_or("").trim().chars().take(60).collect::<String>()), case, "no memcheck error".into(), format!("{line}; see {log}"));
            } else if text.contains("MISMATCH") {
                let line = text.lines().find(|l| l.starts_with("MISMATCH")).unwrap_or("").to_string();
                let log = keep_log(out);
                let what: String = line.split(':').next().unwrap_or("").chars().take(70).collect();
                out.violation("strings-equal-rust-values-and-stay-valid", format!("c19:{}:{what}", j.engine), case, "every C read-out equals the Rust API value of the same object, also later".into(), format!("{line}; see {log}"));
            } else if *code != Some(0) {
                // abort / panic through extern "C" / crash
                let log = keep_log(out);
                out.violation("life-cycle-completes", format!("c19:{}:died:{code:?}/{sig:?}", j.engine), case, "the life cycle completes".into(), format!("exit {code:?} signal {sig:?}; see {log}: {}", tail(&r.log, 5)));
            }
        }
    }
    // counters from the driver's own summary
    match &r.summary {
        Some(s) => {
            let eng = j.engine;
            if let Some(c) = s.get("calls").and_then(|c| c.as_object()) {
                let mut total = 0;
                for (k, v) in c {
                    let n = v.as_u64().unwrap_or(0);
                    total += n;
                    out.count(&format!("{eng}.{k}"), n);
                    if n > 0 {
                        out.distinct(fnv_str(&[eng, k]));
                    }
                }
                out.count("evaluations", total);
                out.count(&format!("{eng}.calls"), total);
            }
            out.count(&format!("{eng}.comparisons"), s.get("comparisons").and_then(|c| c.as_u64()).unwrap_or(0));
            out.count(&format!("{eng}.readouts_after_context_moved_on"), s.get("readouts_after_context_moved_on").and_then(|c| c.as_u64()).unwrap_or(0));
            out.count(&format!("{eng}.readouts_after_context_freed"), s.get("readouts_after_context_freed").and_then(|c| c.as_u64()).unwrap_or(0));
            out.count(&format!("{eng}.runs"), 1);
            out.max(&format!("{eng}.wall_s"), r.wall as u64);
            Ok(())
        }
        None => {
            if out.violations.is_empty() {
                Err(format!("{} seed {}: no summary line in the log ({})", j.engine, j.seed, tail(&r.log, 3)))
            } else {
                Ok(())
            }
        }
    }
}

fn jobs_for(tier: Tier, seed: u64) -> Vec<Job> {
    let mut v = vec![];
    let base = seed.wrapping_mul(1000);
    match tier {
        Tier::Quick => {
            for i in 0..16 {
                v.push(Job { engine: "native", seed: base + i, calls: 12_000, sessions: 3, scripted: false });
            }
            for i in 0..16 {
                v.push(Job { engine: "asan", seed: base + 100 + i, calls: 9_000, sessions: 3, scripted: true });
            }
            for i in 0..6 {
                v.push(Job { engine: "valgrind", seed: base + 200 + i, calls: 120, sessions: 1, scripted: false });
            }
            v.push(Job { engine: "miri", seed: base + 300, calls: 20, sessions: 1, scripted: true });
        }
        Tier::Thorough => {
            for i in 0..32 {
                v.push(Job { engine: "native", seed: base + i, calls: 60_000, sessions: 6, scripted: false });
            }
            for i in 0..48 {
                v.push(Job { engine: "asan", seed: base + 100 + i, calls: 30_000, sessions: 4, scripted: true });
            }
            for i in 0..16 {
                v.push(Job { engine: "valgrind", seed: base + 200 + i, calls: 700, sessions: 1, scripted: false });
            }
            for i in 0..16 {
                v.push(Job { engine: "miri", seed: base + 300 + i, calls: 350, sessions: 3, scripted: true });
            }
        }
    }
    v
}

impl Prop for C19 {
    fn id(&self) -> &'static str {
        "C19"
    }
    fn rule(&self) -> String {
        "random life cycles over all 33 exported functions with valid handles and in-range indices: pools of live configs, contexts, suggestions and strings; every suggestion gets a shadow copy taken through the Rust API from the very same object \
         (the driver casts the pointer it was handed), every C read-out is compared with it at creation, at random later points (after more events on, re-configuration of, or the freeing of its context) and at teardown; strings are kept alive and re-read; \
         null frees; configs freed right after use; then everything is freed, half of the sessions contexts-first. Engines: native build (volume), AddressSanitizer + LeakSanitizer build (quick 16 processes x 16k calls, thorough 48 x 120k), \
         Miri with a 144-word data directory (aliasing, mismatched deallocation, leaks that red zones cannot see; every Miri and ASan process starts with a deterministic pass over every accessor x suggestion variant x ANSI on/off, then random calls), and a C driver compiled by clang against include/riti.h and linked with libriti.a under valgrind memcheck (header vs ABI). \
         distinct_nontrivial = distinct (engine, function) pairs called at least once."
            .into()
    }
    fn assumptions(&self) -> Vec<String> {
        vec![
            "inputs are restricted to those C01 accepts on the current tree (a panic would be an abort here); the vowel sign U+09C4 is never typed (known finding of C02/C16)".into(),
            "ASan without -Zbuild-std: the standard library is not instrumented, riti and its dependencies are".into(),
            "a clean sanitizer run is not a proof of memory safety: it covers the life cycles that were executed".into(),
        ]
    }
    fn shards(&self, _tier: Tier) -> usize {
        1
    }
    fn minima(&self, tier: Tier) -> Vec<(&'static str, u64)> {
        let mut v: Vec<(&'static str, u64)> = vec![("native.runs", 8), ("asan.runs", 8), ("valgrind.runs", 4), ("miri.runs", tier.pick(1, 8)), ("asan.readouts_after_context_freed", 200), ("asan.readouts_after_context_moved_on", 500)];
        v.push(("asan.calls", tier.pick(100_000, 2_000_000)));
        v.push(("symbols_called_under_asan", 33));
        v.push(("symbols_called_by_c_driver", 33));
        v
    }
    fn run_shard(&self, _env: &Env, _out: &mut Out) {}
    fn extra(&self, tier: Tier, seed: u64, merged: &mut Out) -> Result<(), String> {
        let logs = PathBuf::from(target("c19-logs"));
        let _ = std::fs::remove_dir_all(&logs);
        std::fs::create_dir_all(&logs).map_err(|e| e.to_string())?;
        let scratch = PathBuf::from(format!("/dev/shm/verif-c19-{}", std::process::id()));
        let _ = std::fs::remove_dir_all(&scratch);
        std::fs::create_dir_all(&scratch).map_err(|e| e.to_string())?;
        let kfs = load_known_findings();
        let _ = kfs;
        let built = build_all(&logs, true);
        let mut problems: Vec<String> = vec![];
        for (n, r) in [("native", built.plain.as_ref().err()), ("asan", built.asan.as_ref().err()), ("c driver", built.cdrv.as_ref().err()), ("miri", built.miri.as_ref().err())] {
            if let Some(e) = r {
                problems.push(format!("{n}: {e}"));
            }
        }
        // a C driver that no longer compiles against the header is a finding about the header, not a tooling problem
        if let Err(e) = &built.cdrv {
            if e.contains("clang failed") {
                merged.violation("header-matches-abi", "c19:cdrv-does-not-compile".into(), json!({"engine": "clang", "log": e}), "drv.c compiles against include/riti.h and links with libriti.a".into(), e.clone());
                problems.retain(|p| !p.starts_with("c driver"));
            }
        }
        let jobs = jobs_for(tier, seed);
        let par = std::thread::available_parallelism().map(|n| n.get()).unwrap_or(8);
        let results = run_jobs(jobs, &built, &logs, &scratch, par);
        for r in &results {
            if let Err(e) = judge_job(r, merged) {
                problems.push(e);
            }
        }
        // all 33 symbols under ASan and from C
        let called = |prefix: &str, merged: &Out| SYMBOLS.iter().filter(|s| merged.counters.get(&format!("{prefix}.{s}")).copied().unwrap_or(0) > 0).count() as u64;
        let a = called("asan", merged);
        let c = called("valgrind", merged);
        merged.count("symbols_called_under_asan", a);
        merged.count("symbols_called_by_c_driver", c);
        merged.sample(json!({"engines": ["native", "asan+lsan", "miri", "valgrind(c driver)"], "example_job": {"engine": "asan", "argv": ["ffidrv", seed * 1000 + 100, 8000, "full", "<scratch>", 2]}}));
        let _ = std::fs::remove_dir_all(&scratch);
        if problems.is_empty() {
            Ok(())
        } else {
            Err(problems.join("; "))
        }
    }
    fn replay(&self, _env: &Env, case: &Value, out: &mut Out) {
        let engine: &'static str = match case.get("engine").and_then(|e| e.as_str()) {
            Some("native") => "native",
            Some("asan") => "asan",
            Some("miri") => "miri",
            Some("valgrind") => "valgrind",
            _ => return,
        };
        let g = |k: &str| case.get(k).and_then(|v| v.as_u64()).unwrap_or(1);
        let logs = PathBuf::from(target("c19-logs"));
        let _ = std::fs::create_dir_all(&logs);
        let scratch = PathBuf::from(format!("/dev/shm/verif-c19-{}", std::process::id()));
        let _ = std::fs::create_dir_all(&scratch);
        let built = build_all(&logs, engine == "miri");
        let results = run_jobs(vec![Job { engine, seed: g("seed"), calls: g("calls"), sessions: g("sessions"), scripted: case.get("scripted").and_then(|b| b.as_bool()).unwrap_or(false) }], &built, &logs, &scratch, 1);
        for r in &results {
            if let Err(e) = judge_job(r, out) {
                out.note(e);
            }
        }
        let _ = std::fs::remove_dir_all(&scratch);
    }
}
