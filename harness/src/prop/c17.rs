//! C17 — smart quotes curl only the quotes that wrap a word, and nothing else.
//! Paired contexts differing only in the smart-quote option, fed the same history.

use crate::base::*;
use crate::oracle::layout::LayoutOracle;
use crate::oracle::phon::{split, PhonOracle};
use crate::out::*;
use crate::phonkit::*;
use crate::prop::c15::{keys_for, FKey};
use crate::prop::Prop;
use serde_json::{json, Value};

pub struct C17;

#[derive(Default)]
struct Tally {
    events: u64,
    pairs: u64,
    with_quotes: u64,
    curled: u64,
    raw_unchanged: u64,
    punct_only: u64,
    exact: u64,
    with_learned: u64,
    emoji_lists: u64,
    backspaces: u64,
}
fn flush(t: &Tally, out: &mut Out) {
    out.count("evaluations", t.events);
    out.count("paired_lists_compared", t.pairs);
    out.count("texts_with_quotes_in_wrapping", t.with_quotes);
    out.count("candidates_actually_curled", t.curled);
    out.count("raw_text_candidates_checked_unchanged", t.raw_unchanged);
    out.count("punctuation_only_texts", t.punct_only);
    out.count("exact_curling_checked", t.exact);
    out.count("lists_with_learned_preselection", t.with_learned);
    out.count("lists_with_emoji", t.emoji_lists);
    out.count("backspace_events", t.backspaces);
}

fn qshape(text: &str) -> String {
    let mut out = String::new();
    for c in text.chars() {
        let k = if c == '\'' || c == '"' { c } else if c.is_alphanumeric() || BENGALI_BLOCK.contains(&c) { 'w' } else { 'p' };
        if (k == 'w' || k == 'p') && out.ends_with(k) {
            continue;
        }
        out.push(k);
        if out.len() > 10 {
            break;
        }
    }
    out
}

/// Compare the two renderings of the same history step.
/// `text`: the composition (raw typed text in phonetic mode, composed text in fixed mode);
/// `pre`/`post`: the wrapping as it appears in un-curled candidates; `raw`: raw typed text.
#[allow(clippy::too_many_arguments)]
fn compare(o: &PhonOracle, method: &str, off: &Rs, on: &Rs, word_empty: bool, pre: &str, post: &str, raw: &str, case: &dyn Fn() -> Value, out: &mut Out, t: &mut Tally) {
    t.pairs += 1;
    let shape = qshape(raw);
    let fail = |out: &mut Out, clause: &str, exp: String, obs: String| out.violation(clause, format!("c17:{clause}:{method}:shape={shape}"), case(), exp, obs);
    match (off, on) {
        (Rs::Single(a), Rs::Single(b)) => {
            // the single string is never curled
            if a != b {
                fail(out, "only-wrapping-quotes-change", format!("single string {a:?} unchanged by the option"), format!("{b:?}"));
            }
        }
        (Rs::Full { aux: a0, list: a, sel: sa }, Rs::Full { aux: b0, list: b, sel: sb }) => {
            if a0 != b0 {
                fail(out, "same-list-after-uncurling", format!("auxiliary text {a0:?}"), format!("{b0:?}"));
            }
            if a.len() != b.len() || sa != sb {
                let mut c = case();
                c["compared_at"] = json!({"raw_text": raw, "list_off": a, "list_on": b, "sel_off": sa, "sel_on": sb});
                out.violation("same-list-after-uncurling", format!("c17:same-list-after-uncurling:{method}:shape={shape}"), c,
                              format!("same length and preselection: {} candidates, index {sa}: {a:?}", a.len()), format!("{} candidates, index {sb}: {b:?}", b.len()));
                return;
            }
            if *sa > 0 {
                t.with_learned += 1;
            }
            let has_q = pre.contains(['\'', '"']) || post.contains(['\'', '"']);
            if has_q && !word_empty {
                t.with_quotes += 1;
            }
            if word_empty {
                t.punct_only += 1;
                if a != b {
                    fail(out, "punctuation-only-untouched", format!("{a:?} (text is only punctuation)"), format!("{b:?}"));
                }
                return;
            }
            let mut any_emoji = false;
            for (x, y) in a.iter().zip(b.iter()) {
                if uncurl(y) != *x {
                    fail(out, "same-list-after-uncurling", format!("{x:?} after mapping curly quotes back"), format!("{y:?} (lists: off={a:?} on={b:?})"));
                    continue;
                }
                if o.is_emoji(x) {
                    any_emoji = true;
                    if x != y {
                        fail(out, "only-wrapping-quotes-change", format!("emoji {x:?} unchanged"), format!("{y:?}"));
                    }
                    continue;
                }
                let wrapped = x.strip_prefix(pre).and_then(|r| r.strip_suffix(post));
                if x == raw {
                    // the raw typed text itself; when it is also a wrapped candidate (own transliteration) either reading is allowed
                    if wrapped.is_none() || (pre.is_empty() && post.is_empty()) {
                        t.raw_unchanged += 1;
                        if x != y {
                            fail(out, "raw-text-untouched", format!("raw typed text {x:?} unchanged"), format!("{y:?}"));
                        }
                    }
                    continue;
                }
                if let Some(mid) = wrapped {
                    t.exact += 1;
                    let exp = format!("{}{}{}", curl_open(pre), mid, curl_close(post));
                    if *y != exp {
                        fail(out, "only-wrapping-quotes-change", format!("{exp:?} (opening quotes before the word, closing after it, nothing inside {mid:?} touched)"), format!("{y:?}"));
                    } else if y != x {
                        t.curled += 1;
                    }
                }
            }
            if any_emoji {
                t.emoji_lists += 1;
            }
        }
        _ => fail(out, "same-list-after-uncurling", format!("{off:?}"), format!("{on:?}")),
    }
}

fn run_phonetic(o: &PhonOracle, off: &Sess, on: &Sess, text: &str, out: &mut Out, t: &mut Tally) {
    let case = || json!({"method": "phonetic", "cfg_off": off.spec.to_json(), "cfg_on": on.spec.to_json(), "text": text});
    let mut typed = String::new();
    let (mut sa, mut sb) = (0u8, 0u8);
    let nchars = text.chars().count();
    for (ci, c) in text.chars().enumerate() {
        // '\u{8}' stands for a backspace
        let bs = c == '\u{8}';
        if bs {
            typed.pop();
            t.backspaces += 1;
        } else {
            typed.push(c);
        }
        t.events += 2;
        let r = if bs { (off.bs(false), on.bs(false)) } else { (off.key(kc(c), 0, sa), on.key(kc(c), 0, sb)) };
        let (a, b) = match r {
            (Ok(a), Ok(b)) => (Rs::of(&a), Rs::of(&b)),
            (ra, rb) => {
                let p = ra.err().or(rb.err()).unwrap();
                out.violation("same-list-after-uncurling", format!("c17:panic@{}", p.loc), case(), "both contexts answer".into(), format!("panic at {}: {}", p.loc, p.msg));
                break;
            }
        };
        sa = a.sel().unwrap_or(0).min(255) as u8;
        sb = b.sel().unwrap_or(0).min(255) as u8;
        // judge only the final text and a few prefixes (every prefix is itself a text of the workload elsewhere)
        if typed.is_empty() {
            if !a.is_empty() || !b.is_empty() {
                compare(o, "phonetic", &a, &b, true, "", "", &typed, &case, out, t);
            }
            continue;
        }
        if ci + 1 == nchars || typed.len() % 3 == 0 || bs {
            let (lead, word, trail) = split(&typed, false);
            let (pre, post) = (o.avro(&lead), o.avro(&trail));
            out.distinct(fnv_str(&["p", &typed, &off.spec.opts.to_string()]));
            compare(o, "phonetic", &a, &b, word.is_empty(), &pre, &post, &typed, &case, out, t);
            if out.want_sample() && pre.contains('"') && t.pairs % 701 == 3 {
                out.sample(json!({"method": "phonetic", "typed": typed, "smart_quotes_off": a.to_json(), "smart_quotes_on": b.to_json()}));
            }
        }
    }
    let _ = off.finish();
    let _ = on.finish();
}

fn run_fixed(o: &PhonOracle, off: &Sess, on: &Sess, keys: &[FKey], out: &mut Out, t: &mut Tally) {
    let steps: Vec<Option<FKey>> = keys.iter().map(|k| Some(*k)).collect();
    run_fixed_steps(o, off, on, &steps, out, t)
}

/// `None` is a backspace. After a backspace the raw key text is no longer defined (no English candidate is owed), so
/// histories with backspaces are run on pairs without the English option and every candidate must be curled.
fn run_fixed_steps(o: &PhonOracle, off: &Sess, on: &Sess, steps: &[Option<FKey>], out: &mut Out, t: &mut Tally) {
    let case = || {
        let evs: Vec<Ev> = steps.iter().map(|s| match s { Some((k, m, _)) => Ev::Key(*k, *m, 0), None => Ev::Bs }).collect();
        json!({"method": "fixed", "cfg_off": off.spec.to_json(), "cfg_on": on.spec.to_json(), "events": evs_to_json(&evs)})
    };
    let mut raw = String::new();
    let mut bs_used = false;
    for st in steps {
        t.events += 2;
        let r = match st {
            Some((k, m, ch)) => {
                raw.push(*ch);
                (off.key(*k, *m, 0), on.key(*k, *m, 0))
            }
            None => {
                bs_used = true;
                t.backspaces += 1;
                (off.bs(false), on.bs(false))
            }
        };
        if bs_used {
            raw.clear();
        }
        let (a, b) = match r {
            (Ok(a), Ok(b)) => (Rs::of(&a), Rs::of(&b)),
            (ra, rb) => {
                let p = ra.err().or(rb.err()).unwrap();
                out.violation("same-list-after-uncurling", format!("c17:panic@{}", p.loc), case(), "both contexts answer".into(), format!("panic at {}: {}", p.loc, p.msg));
                break;
            }
        };
        if a.is_empty() && b.is_empty() {
            continue;
        }
        let aux = match &a {
            Rs::Full { aux, .. } => aux.clone(),
            Rs::Single(s) => s.clone(),
        };
        let (lead, word, trail) = split(&aux, true);
        out.distinct(fnv_str(&["f", &aux, &off.spec.opts.to_string()]));
        compare(o, "fixed", &a, &b, word.is_empty(), &lead, &trail, &raw, &case, out, t);
    }
    let _ = off.finish();
    let _ = on.finish();
}

fn quote_wrappings(maxlen: usize) -> Vec<String> {
    let q: Vec<char> = "'\"().,-:".chars().collect();
    let mut v = vec![String::new()];
    v.extend(strings_upto(&q, maxlen));
    v
}

fn phon_pairs(root: &std::path::Path) -> Result<Vec<(Sess, Sess)>, Panic> {
    let mut v = vec![];
    for o in [O_PSUGG, O_PSUGG | O_ENG | O_FIXED_ONLY, O_PSUGG | O_ANSI, 0, O_PSUGG | O_ENG | O_ANSI | O_FSUGG | O_VOWEL] {
        v.push((Sess::new(CfgSpec::new(Lay::Phonetic, o), root)?, Sess::new(CfgSpec::new(Lay::Phonetic, o | O_SQ), root)?));
    }
    Ok(v)
}
fn fixed_pairs(root: &std::path::Path) -> Result<Vec<(Sess, Sess)>, Panic> {
    let mut v = vec![];
    for o in [O_FSUGG, O_FSUGG | O_ENG | O_PSUGG, O_FSUGG | O_ANSI | O_TKAR, 0, O_FSUGG | O_ENG | O_TKAR | O_VOWEL | O_PSUGG] {
        v.push((Sess::new(CfgSpec::new(Lay::Probhat, o | O_NUMPAD), root)?, Sess::new(CfgSpec::new(Lay::Probhat, o | O_NUMPAD | O_SQ), root)?));
    }
    Ok(v)
}

const LEARNED: &str = r#"{"as":"আশ","ami":"আমই","onno":"অন্য","sesh":"শেষ","coffee":"কফী"}"#;

impl Prop for C17 {
    fn id(&self) -> &'static str {
        "C17"
    }
    fn rule(&self) -> String {
        "phonetic: 14 words (dictionary words, learned words, emoji names, words with inner quotes such as a'b) x every lead and trail of length <= 2 (quick) / 3 (thorough, strided pairs) over ' \" ( ) . , - : ; \
         all emoticons and a strided set of emoji names wrapped in quotes; the 20-symbol splitter alphabet to length 3; random strings with quote-heavy weighting; a learned-selection store is present; 5 option pairs (English, ANSI, suggestions off). \
         fixed: dictionary half-words, Bengali emoji names and the characters the layout passes through unchanged (so that the composed text equals the raw key text) wrapped by the same quote wrappings, typed through Probhat, 5 option pairs; every third text again with part of the word erased by backspaces (back to the opening wrapping, one character, or into the wrapping) and typed again; the phonetic random strings contain backspaces too. \
         Both contexts of a pair receive the same key history; lists are compared at the final text and every third prefix (phonetic) / every key (fixed). distinct_nontrivial = distinct (method, composition, options) pairs compared."
            .into()
    }
    fn assumptions(&self) -> Vec<String> {
        vec![
            "the property is stated as an equivalence between the option on and off, so the reference is the real engine with the option off".into(),
            "the wrapping of un-curled candidates is computed by O-split (+ O-avro in phonetic mode); a candidate textually equal to the raw text that is also a wrapped candidate may be read either way".into(),
        ]
    }
    fn minima(&self, _tier: Tier) -> Vec<(&'static str, u64)> {
        vec![
            ("paired_lists_compared", 30_000), ("texts_with_quotes_in_wrapping", 8_000), ("candidates_actually_curled", 10_000), ("raw_text_candidates_checked_unchanged", 2_000),
            ("punctuation_only_texts", 1_000), ("lists_with_learned_preselection", 100), ("lists_with_emoji", 300), ("backspace_events", 1_000),
        ]
    }
    fn classify(&self, classifier: &str, _params: &Value, v: &Violation) -> bool {
        match classifier {
            // English on; the raw text is its own (wrapped) transliteration, so with the option off the English duplicate is
            // suppressed (one text), while with the option on the transliteration is curled and the raw text is offered after it.
            "raw-text-is-own-transliteration-with-quotes" => {
                let Some(c) = v.case.get("compared_at") else { return false };
                let g = |k: &str| -> Vec<String> { c.get(k).and_then(|x| x.as_array()).map(|a| a.iter().filter_map(|s| s.as_str().map(|s| s.to_string())).collect()).unwrap_or_default() };
                let (off, on) = (g("list_off"), g("list_on"));
                let raw = c.get("raw_text").and_then(|r| r.as_str()).unwrap_or("");
                // (the finding is about the phonetic method only: the same shape in fixed mode is a violation of its own)
                v.clause == "same-list-after-uncurling"
                    && v.sig.contains(":phonetic:")
                    && c.get("sel_off") == c.get("sel_on")
                    && on.len() == off.len() + 1
                    && on.last().map(|s| s.as_str()) == Some(raw)
                    && off.iter().any(|x| x == raw)
                    && (raw.contains('\'') || raw.contains('"'))
                    && on[..off.len()].iter().zip(&off).all(|(y, x)| uncurl(y) == *x)
            }
            _ => false,
        }
    }
    fn run_shard(&self, env: &Env, out: &mut Out) {
        let Ok(o) = PhonOracle::new() else {
            out.note("oracle load failed".into());
            return;
        };
        let root = env.root("c17");
        fresh_root(&root);
        std::fs::write(selection_file(&root), LEARNED).unwrap();
        let mut t = Tally::default();
        let mut rng = env.rng("c17");
        let thorough = env.tier == Tier::Thorough;
        let pp = match phon_pairs(&root) {
            Ok(v) => v,
            Err(p) => {
                out.violation("setup", format!("c17:setup-panic@{}", p.loc), json!({}), "context creation".into(), p.msg);
                return;
            }
        };
        // ---- phonetic texts
        let words = ["as", "ami", "onno", "sesh", "coffee", "a'b", "k\"t", "smile", "cool", "x", "1", "amar", "it's", "tumi:"];
        let wr = quote_wrappings(if thorough { 3 } else { 2 });
        let mut texts: Vec<String> = vec![];
        for (wi, w) in words.iter().enumerate() {
            for (li, l) in wr.iter().enumerate() {
                for (ri, r) in wr.iter().enumerate() {
                    let keep = if thorough { l.len() + r.len() <= 3 || (li * 31 + ri * 17 + wi) % 41 == 0 } else { l.len() + r.len() <= 2 || (li * 31 + ri * 17 + wi) % 29 == 0 };
                    if keep {
                        texts.push(format!("{l}{w}{r}"));
                    }
                }
            }
        }
        let mut emo: Vec<String> = o.emoticons.keys().map(|s| s.to_string()).filter(|s| typeable(s)).collect();
        emo.sort();
        for e in &emo {
            texts.push(e.clone());
            if e.contains('\'') || e.contains('"') {
                texts.push(format!("\"{e}"));
            }
        }
        let mut names: Vec<String> = o.emojis.keys().map(|s| s.to_string()).filter(|s| typeable(s)).collect();
        names.sort();
        for (i, n) in names.iter().enumerate() {
            if i % env.tier.pick(6, 1) == 0 {
                texts.push(format!("\"{n}\""));
                texts.push(format!("'{n}"));
            }
        }
        let sub: Vec<char> = SUB20.chars().collect();
        texts.extend(strings_upto(&sub, 3));
        texts.retain(|t| typeable(t));
        texts.sort();
        texts.dedup();
        for (i, tx) in texts.iter().enumerate() {
            if !env.mine(i) {
                continue;
            }
            let n = if thorough { pp.len() } else { 1 };
            for j in 0..n {
                let (off, on) = &pp[(i / env.nshards + j) % pp.len()];
                out.begin_case(|| json!({"method": "phonetic", "cfg_off": off.spec.to_json(), "cfg_on": on.spec.to_json(), "text": tx}));
                run_phonetic(&o, off, on, tx, out, &mut t);
            }
        }
        let nrand = env.tier.pick(800, 20000);
        for i in 0..nrand {
            // quote-heavy random strings
            let len = rng.range(1, 9);
            let tx: String = (0..len).map(|_| *rng.pick(&"aimtk'\"'\".,(:`-xs1A\\\u{8}\u{8}".chars().collect::<Vec<_>>())).collect();
            let (off, on) = &pp[i % pp.len()];
            out.begin_case(|| json!({"method": "phonetic", "cfg_off": off.spec.to_json(), "cfg_on": on.spec.to_json(), "text": tx}));
            run_phonetic(&o, off, on, &tx, out, &mut t);
        }
        drop(pp);
        // ---- fixed
        let Ok(lo) = LayoutOracle::load(Lay::Probhat) else { return };
        let rev = lo.reverse();
        let fp = match fixed_pairs(&root) {
            Ok(v) => v,
            Err(p) => {
                out.violation("setup", format!("c17:setup-panic@{}", p.loc), json!({}), "context creation".into(), p.msg);
                return;
            }
        };
        let mut all: Vec<&String> = o.tables.values().flatten().collect();
        all.sort();
        all.dedup();
        let mut fwords: Vec<String> = vec![];
        let step = env.tier.pick(1500, 150);
        for (i, w) in all.iter().enumerate() {
            if i % step == (env.seed as usize) % step {
                let cs: Vec<char> = w.chars().collect();
                fwords.push(cs[..(cs.len() + 1) / 2].iter().collect());
            }
        }
        let mut bn: Vec<&&str> = o.bn_emojis.keys().collect();
        bn.sort();
        for (i, n) in bn.iter().enumerate() {
            if i % env.tier.pick(12, 2) == 0 {
                fwords.push(n.to_string());
            }
        }
        // characters the layout passes through unchanged (the composed text equals the raw key text): as words of their own
        let mut pass: Vec<char> = rev.iter().filter(|(c, k)| c.is_ascii() && **c == k.2 && !"'\"().,-:".contains(**c)).map(|(c, _)| *c).collect();
        pass.sort();
        out.max("fixed_pass_through_characters_used_as_words", pass.len() as u64);
        for &c in &pass {
            fwords.push(c.to_string());
            fwords.push(format!("{c}{c}"));
        }
        // ... and under every wrapping of at most one character on each side, on both pairs that have the English option
        {
            let short = quote_wrappings(1);
            let mut m = 0usize;
            for &c in &pass {
                for l in &short {
                    for r in &short {
                        m += 1;
                        if !env.mine(m) {
                            continue;
                        }
                        let text = format!("{l}{c}{r}");
                        let Some(keys) = keys_for(&rev, &text) else { continue };
                        for pi in [1usize, 4] {
                            let (off, on) = &fp[pi];
                            out.begin_case(|| json!({"method": "fixed", "text": text}));
                            run_fixed(&o, off, on, &keys, out, &mut t);
                        }
                    }
                }
            }
        }
        let fwr = quote_wrappings(2);
        let mut n = 0usize;
        for (wi, w) in fwords.iter().enumerate() {
            for (li, l) in fwr.iter().enumerate() {
                for (ri, r) in fwr.iter().enumerate() {
                    if !(l.len() + r.len() <= 1 || (li * 13 + ri * 7 + wi) % env.tier.pick(37, 7) == 0) {
                        continue;
                    }
                    let mine = env.mine(n);
                    n += 1;
                    if !mine {
                        continue;
                    }
                    let text = format!("{l}{w}{r}");
                    let Some(keys) = keys_for(&rev, &text) else { continue };
                    let (off, on) = &fp[n % fp.len()];
                    out.begin_case(|| json!({"method": "fixed", "text": text}));
                    run_fixed(&o, off, on, &keys, out, &mut t);
                    // the same text with part of it erased and typed again: back to the opening wrapping (counting the
                    // non-joiners traditional joining adds), one character, or one character into the wrapping
                    if n % 3 == 0 && !w.is_empty() {
                        let (off, on) = &fp[[0usize, 2, 3][(n / 3) % 3]];
                        let nl = l.chars().count();
                        let wc: Vec<char> = w.chars().collect();
                        let k = 1 + (n / 9) % wc.len();
                        let joiners = if off.spec.has(O_TKAR) { (1..k).filter(|&i| matches!(wc[i], 'ু' | 'ূ' | 'ৃ') && crate::fixedkit::is_consonant(wc[i - 1])).count() } else { 0 };
                        let nbs = match (n / 27) % 3 {
                            0 => k + joiners,
                            1 => 1,
                            _ => k + joiners + usize::from(nl > 0),
                        };
                        let mut steps: Vec<Option<FKey>> = keys[..nl + k].iter().map(|x| Some(*x)).collect();
                        steps.extend((0..nbs).map(|_| None));
                        let from = (nl + k).saturating_sub(nbs.min(k + usize::from(nl > 0)));
                        steps.extend(keys[from.min(keys.len())..].iter().map(|x| Some(*x)));
                        run_fixed_steps(&o, off, on, &steps, out, &mut t);
                    }
                }
            }
        }
        // emoticon key sequences in fixed mode
        for (i, e) in emo.iter().enumerate() {
            if !env.mine(i) {
                continue;
            }
            let keys: Vec<FKey> = e.chars().map(|c| (kc(c), 0u8, c)).collect();
            let (off, on) = &fp[i % fp.len()];
            run_fixed(&o, off, on, &keys, out, &mut t);
        }
        flush(&t, out);
    }
    fn replay(&self, env: &Env, case: &Value, out: &mut Out) {
        let Ok(o) = PhonOracle::new() else { return };
        let root = env.root("c17");
        fresh_root(&root);
        std::fs::write(selection_file(&root), LEARNED).unwrap();
        let (Some(a), Some(b)) = (case.get("cfg_off").and_then(CfgSpec::from_json), case.get("cfg_on").and_then(CfgSpec::from_json)) else { return };
        let (Ok(off), Ok(on)) = (Sess::new(a, &root), Sess::new(b, &root)) else { return };
        let mut t = Tally::default();
        if case.get("method").and_then(|m| m.as_str()) == Some("phonetic") {
            run_phonetic(&o, &off, &on, case.get("text").and_then(|t| t.as_str()).unwrap_or(""), out, &mut t);
        } else if let Some(evs) = case.get("events").and_then(evs_from_json) {
            let steps: Vec<Option<FKey>> = evs.iter().filter_map(|e| match e {
                Ev::Key(k, m, _) => Some(Some((*k, *m, char_for_key(*k).unwrap_or('?')))),
                Ev::Bs => Some(None),
                _ => None,
            }).collect();
            run_fixed_steps(&o, &off, &on, &steps, out, &mut t);
        }
        flush(&t, out);
    }
}
