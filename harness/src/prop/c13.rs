//! C13 — old-style reph is moved in front of the final conjunct and loses nothing.
//! Conservation is judged on every reachable text; placement on texts accepted by
//! the syllable grammar O-syll.

use crate::base::*;
use crate::fixedkit::*;
use crate::oracle::layout::LayoutOracle;
use crate::out::*;
use crate::prop::Prop;
use serde_json::{json, Value};

pub struct C13;

#[derive(PartialEq, Clone, Copy, Debug)]
pub enum Place {
    At(usize),
    /// either position satisfies the statement as far as it can be read (traditional joining puts a non-joiner between
    /// the conjunct and its sign: "ends in the conjunct followed by one sign" can be read either way)
    Either(usize, usize),
    Unspecified(&'static str),
    NotGrammar,
}

fn closer(c: char) -> bool {
    c == 'ং' || c == 'ঃ'
}

/// O-syll: expected insertion index (in code points) of the reph for a well-formed text.
pub fn expected_place(p: &[char]) -> Place {
    let n = p.len();
    if n == 0 {
        return Place::At(0);
    }
    let mut i = 0;
    // (start of final conjunct, open (nothing closes the syllable), independent vowel follows the cluster, joiner inside)
    let mut last_unit: Option<(usize, bool, bool, bool)> = None;
    let mut last_tjoin = false;
    while i < n {
        let c = p[i];
        if is_consonant(c) {
            let mut conj_start = i;
            let mut joiner = false;
            i += 1;
            loop {
                if i + 1 < n && p[i] == HASANTA && is_consonant(p[i + 1]) {
                    i += 2;
                    continue;
                }
                if i + 2 < n && p[i] == HASANTA && p[i + 1] == ZWNJ && is_consonant(p[i + 2]) {
                    // explicit hasanta: the consonants are not joined, a new cluster starts
                    conj_start = i + 2;
                    joiner = true;
                    i += 3;
                    continue;
                }
                if i + 2 < n && p[i] == ZWJ && p[i + 1] == HASANTA && p[i + 2] == 'য' && p[i - 1] == 'র' {
                    joiner = true;
                    i += 3;
                    continue;
                }
                break;
            }
            let mut open = true;
            let mut indep = false;
            let mut tjoin = false;
            if i + 1 < n && p[i] == ZWNJ && matches!(p[i + 1], 'ু' | 'ূ' | 'ৃ') {
                // the non-joiner traditional joining puts in front of a ligature-making sign
                i += 2;
                tjoin = true;
            } else if i < n && is_kar(p[i]) {
                i += 1;
            } else if i < n && is_vowel_letter(p[i]) {
                i += 1;
                indep = true;
            }
            if i < n && p[i] == CHANDRA {
                i += 1;
            }
            if i < n && closer(p[i]) {
                i += 1;
                open = false;
            }
            last_unit = Some((conj_start, open, indep, joiner));
            last_tjoin = tjoin;
        } else if is_vowel_letter(c) {
            i += 1;
            if i < n && p[i] == CHANDRA {
                i += 1;
            }
            if i < n && closer(p[i]) {
                i += 1;
            }
            last_unit = Some((n, false, false, false));
            last_tjoin = false;
        } else if c.is_ascii_punctuation() || is_bengali_digit(c) || c == '।' {
            i += 1;
            last_unit = Some((n, false, false, false));
            last_tjoin = false;
        } else {
            return Place::NotGrammar;
        }
    }
    match last_unit {
        Some((_, true, _, true)) => Place::Unspecified("joiner (ZWJ/ZWNJ) inside the final consonant cluster"),
        Some((_, true, true, _)) => Place::Unspecified("consonant cluster directly followed by an independent vowel"),
        Some((s, true, false, false)) if last_tjoin => Place::Either(s, n),
        Some((s, true, false, false)) => Place::At(s),
        Some((_, false, _, _)) => Place::At(n),
        None => Place::At(0),
    }
}

pub const ALPHABET: [&str; 17] = [
    "অ", "ই", "া", "ি", "ু", "ক", "ত", "র", "\u{09CD}", "\u{0981}", "ং", "\u{200C}", "১", "!", "\u{09CD}\u{09B0}", "\u{09CD}\u{09AF}", "\u{09B0}\u{09CD}",
];

fn spec_for(bits: u8, reph: bool) -> CfgSpec {
    let mut o = 0;
    if bits & 1 != 0 {
        o |= O_VOWEL;
    }
    if bits & 2 != 0 {
        o |= O_CHANDRA;
    }
    if bits & 4 != 0 {
        o |= O_TKAR;
    }
    if bits & 8 != 0 {
        o |= O_KARORDER;
    }
    if reph {
        o |= O_REPH;
    }
    CfgSpec::new(Lay::Verif, o)
}

#[derive(Default)]
struct Tally {
    cases: u64,
    conservation: u64,
    placement_judged: u64,
    placement_moved: u64,
    placement_end: u64,
    placement_either: u64,
    unspecified: u64,
    not_grammar: u64,
    empty_text: u64,
    off_append: u64,
}

fn case_json(spec: &CfgSpec, keys: &[(u16, u8)], reph: (u16, u8)) -> Value {
    let mut evs: Vec<Ev> = keys.iter().map(|&(k, m)| Ev::Key(k, m, 0)).collect();
    evs.push(Ev::Key(reph.0, reph.1, 0));
    json!({"cfg": spec.to_json(), "events": evs_to_json(&evs)})
}

/// Type `keys` on an idle context, then the reph key; judge. Leaves the context idle.
fn judge(sess: &Sess, spec: &CfgSpec, keys: &[(u16, u8)], reph: (u16, u8), out: &mut Out, t: &mut Tally) {
    t.cases += 1;
    let mut p = String::new();
    for &(k, m) in keys {
        match sess.key(k, m, 0) {
            Ok(s) => p = shown(&s),
            Err(pn) => {
                out.violation("typing", format!("c13:typing-panic@{}", pn.loc), case_json(spec, keys, reph), "keys are processed".into(), format!("panic at {}: {}", pn.loc, pn.msg));
                let _ = sess.finish();
                return;
            }
        }
    }
    let q = match sess.key(reph.0, reph.1, 0) {
        Ok(s) => shown(&s),
        Err(pn) => {
            let _ = sess.finish();
            let cls = if p.is_empty() { "empty-text" } else { "non-empty-text" };
            out.violation("conservation", format!("c13:reph-panic@{}:{cls}", pn.loc), case_json(spec, keys, reph),
                          format!("{p:?} with \"র্\" inserted at one position"), format!("panic at {}: {}", pn.loc, pn.msg));
            return;
        }
    };
    let _ = sess.finish();
    let pc: Vec<char> = p.chars().collect();
    let qc: Vec<char> = q.chars().collect();
    if !spec.has(O_REPH) {
        t.off_append += 1;
        let exp = format!("{p}{REPH}");
        if q != exp {
            out.violation("option-off-appends", format!("c13:off-append:last={}", pc.last().map(|c| esc(&c.to_string())).unwrap_or("<empty>".into())),
                          case_json(spec, keys, reph), format!("{exp:?}"), format!("{q:?}"));
        }
        return;
    }
    // conservation: q = p[..k] + "র্" + p[k..] for some k
    t.conservation += 1;
    if pc.is_empty() {
        t.empty_text += 1;
    }
    let positions: Vec<usize> = if qc.len() == pc.len() + 2 {
        (0..=pc.len()).filter(|&k| qc[..k] == pc[..k] && qc[k] == 'র' && qc[k + 1] == HASANTA && qc[k + 2..] == pc[k..]).collect()
    } else {
        vec![]
    };
    if positions.is_empty() {
        out.violation("conservation", format!("c13:conservation:len{}->{}", pc.len(), qc.len()), case_json(spec, keys, reph),
                      format!("{p:?} with \"র্\" inserted at exactly one position and nothing else changed"), format!("{q:?}"));
        return;
    }
    match expected_place(&pc) {
        Place::NotGrammar => t.not_grammar += 1,
        Place::Unspecified(_) => t.unspecified += 1,
        Place::Either(a, b) => {
            t.placement_either += 1;
            out.distinct(fnv_str(&[&p]));
            if !positions.contains(&a) && !positions.contains(&b) {
                let shape: String = pc.iter().rev().take(4).rev().map(|&c| class_letter(c)).collect();
                out.violation("placement", format!("c13:placement:tail={shape}:neither-before-conjunct-nor-end"), case_json(spec, keys, reph),
                              format!("reph at code point {a} or {b} of {p:?}"), format!("{q:?}"));
            }
        }
        Place::At(k) => {
            t.placement_judged += 1;
            if k == pc.len() {
                t.placement_end += 1;
            } else {
                t.placement_moved += 1;
            }
            out.distinct(fnv_str(&[&p]));
            if out.want_sample() && t.placement_moved % 501 == 7 {
                out.sample(json!({"options": spec.short(), "text_before": p, "after_reph_key": q, "expected_position": k}));
            }
            if !positions.contains(&k) {
                let mut x: Vec<char> = pc[..k].to_vec();
                x.push('র');
                x.push(HASANTA);
                x.extend(&pc[k..]);
                let exp: String = x.iter().collect();
                // signature: shape of the final syllable (class string of the last 4 code points)
                let shape: String = pc.iter().rev().take(4).rev().map(|&c| class_letter(c)).collect();
                out.violation("placement", format!("c13:placement:tail={shape}:exp{}:got{}", if k == pc.len() { "end" } else { "moved" }, if positions.contains(&pc.len()) { "end" } else { "moved" }),
                              case_json(spec, keys, reph), format!("{exp:?} (reph at code point {k} of {p:?})"), format!("{q:?}"));
            }
        }
    }
}

fn class_letter(c: char) -> char {
    if is_consonant(c) {
        'C'
    } else if c == HASANTA {
        'h'
    } else if is_kar(c) {
        'k'
    } else if is_vowel_letter(c) {
        'V'
    } else if c == CHANDRA {
        'n'
    } else if closer(c) {
        'm'
    } else if c == ZWNJ {
        'z'
    } else if c == ZWJ {
        'j'
    } else if is_bengali_digit(c) {
        'd'
    } else if c.is_ascii_punctuation() {
        'p'
    } else {
        '?'
    }
}

fn flush(t: &Tally, out: &mut Out) {
    out.count("evaluations", t.cases);
    out.count("conservation_judged", t.conservation);
    out.count("placement_judged", t.placement_judged);
    out.count("placement_expected_moved", t.placement_moved);
    out.count("placement_expected_end", t.placement_end);
    out.count("placement_traditional_joiner_either", t.placement_either);
    out.count("placement_unspecified", t.unspecified);
    out.count("outside_grammar", t.not_grammar);
    out.count("empty_text", t.empty_text);
    out.count("option_off_append_judged", t.off_append);
}

/// Well-formed words generated from the grammar (keys through the synthetic layout).
fn grammar_words(o: &LayoutOracle, max_syll: usize) -> Vec<Vec<(u16, u8)>> {
    let k = |v: &str| {
        let s = sym(o, v);
        (s.code, s.md)
    };
    let h = k("\u{09CD}");
    let clusters: Vec<Vec<(u16, u8)>> = vec![
        vec![k("ক")], vec![k("ত")], vec![k("র")], vec![k("ক"), h, k("ত")], vec![k("ক"), k(ROFOLA)], vec![k("ত"), k(ZOFOLA)],
        vec![k("র"), k(ZOFOLA)], vec![k("ক"), h, k("ত"), k(ROFOLA)], vec![k("র"), h, k("ক")], vec![k("ক"), h, k("\u{200C}"), k("ত")],
        vec![k("ক\u{09CD}ষ")],
    ];
    let signs: Vec<Vec<(u16, u8)>> = vec![vec![], vec![k("া")], vec![k("ি")], vec![k("ু")], vec![k("ই")]];
    let mut syl: Vec<Vec<(u16, u8)>> = vec![];
    for c in &clusters {
        for s in &signs {
            for ch in [false, true] {
                for m in [false, true] {
                    let mut v = c.clone();
                    v.extend(s);
                    if ch {
                        v.push(k("\u{0981}"));
                    }
                    if m {
                        v.push(k("ং"));
                    }
                    syl.push(v);
                }
            }
        }
    }
    for v in ["অ", "ই"] {
        syl.push(vec![k(v)]);
        syl.push(vec![k(v), k("\u{0981}")]);
    }
    syl.push(vec![k("!")]);
    syl.push(vec![k("১")]);
    let mut words: Vec<Vec<(u16, u8)>> = vec![vec![]];
    let mut level: Vec<Vec<(u16, u8)>> = vec![vec![]];
    for _ in 0..max_syll {
        let mut next = vec![];
        for w in &level {
            for s in &syl {
                let mut x = w.clone();
                x.extend(s);
                next.push(x);
            }
        }
        words.extend(next.iter().cloned());
        level = next;
    }
    words
}

impl Prop for C13 {
    fn id(&self) -> &'static str {
        "C13"
    }
    fn rule(&self) -> String {
        format!(
            "(a) every key history of length <= L (L=4 quick, 5 thorough) over a {}-symbol alphabet (vowels, signs, consonants, hasanta, chandrabindu, anusvara, ZWNJ, digit, \
             punctuation, ro-fola, zo-fola, reph) under the 16 settings of auto-vowel/auto-chandra/traditional/old-vowel-order, followed by the reph key with old-style reph on: \
             conservation on every text, placement where the syllable grammar accepts the text; the same histories with the option off (plain append), strided; \
             (b) all words of <= 2 (quick) / 3 (thorough, strided) syllables generated from the grammar; (c) every Bengali-block character the synthetic layout has a key for (all 36 consonants, all signs, all vowels, marks) in 2-8 positions of the final syllable under the 16 settings; (d) the option switched on and off by update_engine (fresh or reused configuration object) under a live idle context, 20 rounds x 5 texts; (e) 7 texts x 4 helper settings x old-style reph on/off with options the statement does not mention switched on (ANSI, smart quotes, English, number pad, phonetic suggestions, alone and combined). distinct_nontrivial = distinct texts whose placement was judged.",
            ALPHABET.len()
        )
    }
    fn assumptions(&self) -> Vec<String> {
        vec![
            "well-formedness is decided by the harness grammar O-syll: C(্C)*[sign|vowel][ঁ][ং|ঃ], independent vowels, digits, punctuation".into(),
            "when traditional joining has put a non-joiner between the final conjunct and its sign (ক + ZWNJ + ু), the reph must be either in front of the conjunct or at the end (both readings of the statement are accepted)".into(),
            "placement is not judged (conservation still is) when the final cluster is directly followed by an independent vowel, when a joiner (ZWJ/ZWNJ) occurs inside the final cluster, or when the text is outside the grammar".into(),
        ]
    }
    fn shards(&self, tier: Tier) -> usize {
        tier.pick(16, 64)
    }
    fn exhaustive(&self, _tier: Tier) -> bool {
        true
    }
    fn minima(&self, _tier: Tier) -> Vec<(&'static str, u64)> {
        vec![("conservation_judged", 10_000), ("placement_expected_moved", 2_000), ("placement_expected_end", 1_000), ("empty_text", 4), ("placement_traditional_joiner_either", 200), ("per_character_shapes", 5_000), ("option_switched_live", 100), ("option_off_append_judged", 1_000)]
    }
    fn run_shard(&self, env: &Env, out: &mut Out) {
        let Ok(oracle) = LayoutOracle::load(Lay::Verif) else {
            out.note("layout oracle failed".into());
            return;
        };
        let alpha = syms(&oracle, &ALPHABET);
        let reph = {
            let s = sym(&oracle, REPH);
            (s.code, s.md)
        };
        let n = alpha.len();
        let maxlen = env.tier.pick(4, 5);
        let root = env.root("c13");
        fresh_root(&root);
        let mut t = Tally::default();
        let mut item = 0usize;
        for bits in 0..16u8 {
            let spec_on = spec_for(bits, true);
            let spec_off = spec_for(bits, false);
            let mut sess: Option<(Sess, Sess)> = None;
            // length 0 (empty text) belongs to the shard that owns the first item of this setting
            for first in 0..n {
                let mine = env.mine(item);
                item += 1;
                if !mine {
                    continue;
                }
                if sess.is_none() {
                    match (Sess::new(spec_on, &root), Sess::new(spec_off, &root)) {
                        (Ok(a), Ok(b)) => sess = Some((a, b)),
                        _ => {
                            out.violation("setup", "c13:setup".into(), json!({"cfg": spec_on.to_json()}), "context creation".into(), "panic".into());
                            break;
                        }
                    }
                }
                let (on, off) = sess.as_ref().unwrap();
                if first == 0 {
                    out.begin_case(|| case_json(&spec_on, &[], reph));
                    judge(on, &spec_on, &[], reph, out, &mut t);
                    judge(off, &spec_off, &[], reph, out, &mut t);
                }
                for len in 1..=maxlen {
                    let mut idx = vec![0usize; len];
                    idx[0] = first;
                    let mut hno = 0u64;
                    loop {
                        let keys: Vec<(u16, u8)> = idx.iter().map(|&i| (alpha[i].code, alpha[i].md)).collect();
                        out.begin_case(|| case_json(&spec_on, &keys, reph));
                        judge(on, &spec_on, &keys, reph, out, &mut t);
                        hno += 1;
                        if hno % 16 == 0 || len <= 2 {
                            judge(off, &spec_off, &keys, reph, out, &mut t);
                        }
                        if !next_seq(&mut idx, n) {
                            break;
                        }
                    }
                }
            }
        }
        // every consonant, vowel sign and independent vowel the layout has a key for, in the positions that matter to the scan
        if env.shard == 0 {
            let k = |v: &str| oracle.key_for_value(v);
            let singles: Vec<(char, (u16, u8))> = ('\u{0980}'..='\u{09FF}').filter_map(|c| k(&c.to_string()).map(|x| (c, x))).collect();
            let (Some(ka), Some(h), Some(aa), Some(i), Some(a), Some(ch)) = (k("ক"), k("\u{09CD}"), k("া"), k("ি"), k("অ"), k("\u{0981}")) else {
                out.note("synthetic layout lacks a basic key".into());
                return;
            };
            let mut nshape = 0u64;
            for bits in 0..16u8 {
                let spec = spec_for(bits, true);
                let Ok(s) = Sess::new(spec, &root) else { continue };
                for &(c, x) in &singles {
                    let shapes: Vec<Vec<(u16, u8)>> = if is_consonant(c) {
                        vec![vec![x], vec![ka, x], vec![x, aa], vec![ka, h, x], vec![x, h, ka], vec![x, h, ka, i], vec![a, x, ch], vec![ka, aa, x, i, ch]]
                    } else if is_kar(c) {
                        vec![vec![ka, x], vec![ka, h, ka, x], vec![ka, x, ch], vec![ka, x, ka]]
                    } else if is_vowel_letter(c) {
                        vec![vec![x], vec![ka, x], vec![x, ka], vec![x, ch]]
                    } else {
                        vec![vec![ka, x], vec![x, ka]]
                    };
                    for w in shapes {
                        nshape += 1;
                        out.begin_case(|| case_json(&spec, &w, reph));
                        judge(&s, &spec, &w, reph, out, &mut t);
                    }
                }
            }
            out.count("per_character_shapes", nshape);
            // options the statement does not mention (ANSI output, smart quotes, English, number pad, phonetic suggestions)
            // must not change where the reph goes, nor make the key move it while old-style reph is off
            {
                let texts: Vec<Vec<(u16, u8)>> = vec![vec![], vec![ka], vec![ka, aa], vec![ka, h, ka, i], vec![a, ka, ch], vec![ka, h, ka, aa, ch], vec![ka, aa, ka]];
                let mut nby = 0u64;
                for by in [O_ANSI, O_SQ, O_ENG, O_NUMPAD, O_PSUGG, O_FSUGG, O_ANSI | O_ENG | O_SQ, O_ANSI | O_NUMPAD | O_PSUGG | O_FSUGG] {
                    for bits in [0u8, 5, 10, 15] {
                        for on in [false, true] {
                            let spec = CfgSpec { opts: spec_for(bits, on).opts | by, ..spec_for(bits, on) };
                            let Ok(s) = Sess::new(spec, &root) else { continue };
                            for w in &texts {
                                nby += 1;
                                out.begin_case(|| case_json(&spec, w, reph));
                                judge(&s, &spec, w, reph, out, &mut t);
                            }
                        }
                    }
                }
                out.count("with_bystander_options", nby);
            }
            // the option switched on and off under a live, idle context: it must take effect at once
            let base = CfgSpec::new(Lay::Verif, 0);
            if let Ok(mut s) = Sess::new(base, &root) {
                let texts: Vec<Vec<(u16, u8)>> = vec![vec![ka], vec![ka, aa], vec![ka, h, ka, i], vec![a, ka, ch], vec![]];
                let mut nflip = 0u64;
                for round in 0..20usize {
                    let spec = if round % 2 == 0 { base.with(O_REPH) } else { base };
                    if s.update_with(spec, [0u8, 3, 1, 4, 2][round % 5]).is_err() {
                        break;
                    }
                    for w in &texts {
                        nflip += 1;
                        out.begin_case(|| {
                            let mut c = case_json(&spec, w, reph);
                            c["history"] = json!(format!("old-style reph switched by update_engine on a live idle context, round {round}"));
                            c
                        });
                        judge(&s, &spec, w, reph, out, &mut t);
                    }
                }
                out.count("option_switched_live", nflip);
            }
        }
        // grammar-generated words
        let words = grammar_words(&oracle, env.tier.pick(2, 3));
        let stride = env.tier.pick(1, 7);
        let mut cache: Vec<Option<Sess>> = (0..16).map(|_| None).collect();
        for (wi, w) in words.iter().enumerate() {
            if !env.mine(wi / 64) || (stride > 1 && wi % stride != 0 && w.len() > 8) {
                continue;
            }
            let bits = (wi * 7 + 3) % 16;
            let spec = spec_for(bits as u8, true);
            if cache[bits].is_none() {
                cache[bits] = Sess::new(spec, &root).ok();
            }
            let Some(s) = cache[bits].as_ref() else { continue };
            out.begin_case(|| case_json(&spec, w, reph));
            judge(s, &spec, w, reph, out, &mut t);
        }
        flush(&t, out);
    }
    fn replay(&self, env: &Env, case: &Value, out: &mut Out) {
        let Some(spec) = case.get("cfg").and_then(CfgSpec::from_json) else { return };
        let Some(evs) = case.get("events").and_then(evs_from_json) else { return };
        let mut keys: Vec<(u16, u8)> = evs.iter().filter_map(|e| if let Ev::Key(k, m, _) = e { Some((*k, *m)) } else { None }).collect();
        let Some(reph) = keys.pop() else { return };
        let root = env.root("c13");
        fresh_root(&root);
        let Ok(s) = Sess::new(spec, &root) else { return };
        let mut t = Tally::default();
        judge(&s, &spec, &keys, reph, out, &mut t);
        flush(&t, out);
    }
}
