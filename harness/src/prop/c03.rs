//! C03 — phonetic output is the Avro transliteration of exactly what was typed.

use crate::base::*;
use crate::oracle::phon::{PhonOracle, PUNCT};
use crate::out::*;
use crate::phonkit::*;
use crate::prop::Prop;
use serde_json::{json, Value};

pub struct C03;

fn lonely_specs() -> Vec<CfgSpec> {
    // suggestions off; the other options must not matter
    vec![
        CfgSpec::new(Lay::Phonetic, 0),
        CfgSpec::new(Lay::Phonetic, O_ENG | O_SQ | O_FIXED_ONLY),
        CfgSpec::new(Lay::Phonetic, O_ANSI | O_SQ),
        CfgSpec::new(Lay::Phonetic, O_ENG | O_ANSI | O_REPH | O_KARORDER),
    ]
}
fn list_specs() -> Vec<CfgSpec> {
    vec![
        CfgSpec::new(Lay::Phonetic, O_PSUGG),
        CfgSpec::new(Lay::Phonetic, O_PSUGG | O_ENG | O_SQ),
        CfgSpec::new(Lay::Phonetic, O_PSUGG | O_SQ | O_ANSI | O_FIXED_ONLY),
        CfgSpec::new(Lay::Phonetic, O_PSUGG | O_ENG | O_FSUGG | O_VOWEL | O_NUMPAD),
    ]
}

struct Ctxs {
    lonely: Vec<Sess>,
    lists: Vec<Sess>,
}

fn mk(env: &Env) -> Result<Ctxs, Panic> {
    let root = env.root("c03");
    fresh_root(&root);
    Ok(Ctxs {
        lonely: lonely_specs().into_iter().map(|s| Sess::new(s, &root)).collect::<Result<_, _>>()?,
        lists: list_specs().into_iter().map(|s| Sess::new(s, &root)).collect::<Result<_, _>>()?,
    })
}

#[derive(Default)]
struct Tally {
    events: u64,
    parts_judged: u64,
    parts_wrapped: u64,
    cand_judged: u64,
    cand_curled: u64,
    long_words: u64,
    parts_after_slip: u64,
}

/// Clause A: lonely(lead+word+trail) == avro(lead)+avro(word)+avro(trail)
fn judge_parts(c: &Ctxs, o: &PhonOracle, which: usize, lead: &str, word: &str, trail: &str, out: &mut Out, t: &mut Tally) {
    let text = format!("{lead}{word}{trail}");
    let sess = &c.lonely[which % c.lonely.len()];
    t.events += text.len() as u64;
    let case = || json!({"clause": "parts", "cfg": sess.spec.to_json(), "lead": lead, "word": word, "trail": trail});
    // every fifth text is reached by a slip: one more character (a back-tick, a letter, a colon, a full stop or a
    // back-slash, in rotation) is typed after it and erased again; what the backspace returns is then the single string
    // of the text that is left
    let h = fnv_str(&[&text]) as usize;
    let slip: Option<char> = if h % 5 == 0 { Some(['`', 'k', ':', '.', '\\'][(h / 5) % 5]) } else { None };
    let typed = match slip {
        None => type_finish(sess, &text),
        Some(x) => (|| {
            sess.type_text_protocol(&text)?;
            sess.key(kc(x), 0, 0)?;
            let s = sess.bs(false)?;
            sess.finish()?;
            Ok(s)
        })(),
    };
    if slip.is_some() {
        t.parts_after_slip += 1;
    }
    let case = || {
        let mut c = case();
        if let Some(x) = slip {
            c["then_typed_and_erased"] = json!(x.to_string());
        }
        c
    };
    let got = match typed {
        Ok(s) if s.is_lonely() => s.get_lonely_suggestion().to_string(),
        Ok(_) => {
            out.violation("transliteration-of-parts", "c03:parts:list-with-suggestions-off".into(), case(), "a single string".into(), "a list".into());
            return;
        }
        Err(p) => {
            let _ = sess.finish();
            out.violation("transliteration-of-parts", format!("c03:parts:panic@{}", p.loc), case(), "a single string".into(), format!("panic at {}: {}", p.loc, p.msg));
            return;
        }
    };
    t.parts_judged += 1;
    if !lead.is_empty() || !trail.is_empty() {
        t.parts_wrapped += 1;
    }
    let exp = format!("{}{}{}", o.avro(lead), o.avro(word), o.avro(trail));
    out.distinct(fnv_str(&[&text]));
    if out.want_sample() && t.parts_judged % 4001 == 17 {
        out.sample(json!({"typed": text, "parts": [lead, word, trail], "single_string": got}));
    }
    if got != exp {
        let lc = lead.chars().last().map(|c| c.to_string()).unwrap_or_default();
        let tc = trail.chars().next().map(|c| c.to_string()).unwrap_or_default();
        out.violation("transliteration-of-parts", format!("c03:parts:lead-end={lc:?}:trail-start={tc:?}:whole-differs={}", o.avro(&text) != exp), case(),
                      format!("{exp:?} = avro({lead:?}) + avro({word:?}) + avro({trail:?})"), format!("{got:?}"));
    }
}

/// Clause B: with suggestions on, the single-string output (modulo curling) is one of the candidates.
fn judge_candidate(c: &Ctxs, which: usize, text: &str, out: &mut Out, t: &mut Tally) {
    let sess = &c.lists[which % c.lists.len()];
    let lon = &c.lonely[0];
    t.events += 2 * text.len() as u64;
    let case = || json!({"clause": "candidate", "cfg": sess.spec.to_json(), "text": text});
    let lonely = match type_finish(lon, text) {
        Ok(s) if s.is_lonely() => s.get_lonely_suggestion().to_string(),
        Ok(_) => return,
        Err(p) => {
            let _ = lon.finish();
            out.violation("transliteration-is-a-candidate", format!("c03:cand:lonely-panic@{}", p.loc), case(), "a single string".into(), format!("panic at {}: {}", p.loc, p.msg));
            return;
        }
    };
    // the word is ended by finish, by committing the pre-selected candidate or by committing the last candidate
    // (rotating), so that what an ended word leaves behind would show in the next text
    let typed = (|| -> Result<riti::suggestion::Suggestion, Panic> {
        let s = sess.type_text_protocol(text)?.expect("non-empty text");
        match (which / 4) % 3 {
            0 => sess.finish()?,
            1 => sess.commit(if s.is_lonely() { 0 } else { s.previously_selected_index().min(s.len().saturating_sub(1)) })?,
            _ => sess.commit(if s.is_lonely() { 0 } else { s.len().saturating_sub(1) })?,
        }
        Ok(s)
    })();
    let list = match typed {
        Ok(s) if !s.is_lonely() => s.get_suggestions().to_vec(),
        Ok(_) => {
            out.violation("transliteration-is-a-candidate", "c03:cand:single-with-suggestions-on".into(), case(), "a list".into(), "a single string".into());
            return;
        }
        Err(p) => {
            let _ = sess.finish();
            out.violation("transliteration-is-a-candidate", format!("c03:cand:panic@{}", p.loc), case(), "a list".into(), format!("panic at {}: {}", p.loc, p.msg));
            return;
        }
    };
    t.cand_judged += 1;
    out.distinct(fnv_str(&["B", text]));
    let hit = list.iter().find(|x| uncurl(x) == lonely);
    if let Some(h) = hit {
        if *h != lonely {
            t.cand_curled += 1;
        }
    }
    if out.want_sample() && t.cand_judged % 5003 == 11 {
        out.sample(json!({"typed": text, "options": sess.spec.short(), "single_string": lonely, "candidates": list}));
    }
    if hit.is_none() {
        let shape: String = text.chars().map(|c| if c.is_ascii_alphanumeric() { 'w' } else { c }).collect::<String>().chars().take(6).collect();
        out.violation("transliteration-is-a-candidate", format!("c03:cand:shape={shape}:sq={}", sess.spec.has(O_SQ)), case(),
                      format!("a candidate equal (after un-curling quotes) to {lonely:?}"), format!("{list:?}"));
    }
}

fn punct_strings(maxlen: usize) -> Vec<String> {
    let p: Vec<char> = PUNCT.chars().collect();
    let mut v = vec![String::new()];
    v.extend(strings_upto(&p, maxlen));
    v
}

impl Prop for C03 {
    fn id(&self) -> &'static str {
        "C03"
    }
    fn rule(&self) -> String {
        "clause 'parts' (suggestions off, 4 settings of English/smart-quote/ANSI): words = all [a-z]{1,3} (thorough; [a-z]{1,2} + a strided third of length 3 in quick), all [A-Za-z0-9]{1,2}, all alphanumeric auto-correct keys, \
         random alphanumeric words up to 12; each with no wrapping, and strided words with every lead/trail string of length <= 2 over the 27 punctuation characters \
         (757 x 757 pairs sampled; full lead x {empty} and {empty} x trail) and random wrappings up to 3; expected = avro(lead)+avro(word)+avro(trail) from the okkhor parser called directly on the generator's own parts. \
         clause 'candidate' (suggestions on, 4 settings): all 8930 strings of length <= 2 over the 94 typeable characters, the 20-symbol splitter alphabet up to length 3 (quick) / 4 (thorough), random strings up to 10, and wrapped words of 30-48 letters (4 per shard quick, 40 thorough) in both clauses; \
         each text ended by finish / commit of the pre-selected / commit of the last candidate in rotation; a third of the digits and of . + - * / (fixed by the text) are typed through the number-pad keys in both clauses; the single-string output of a suggestions-off context must be among the candidates after un-curling. distinct_nontrivial = distinct typed texts judged."
            .into()
    }
    fn assumptions(&self) -> Vec<String> {
        vec![
            "O-avro is okkhor::parser::Parser::new_phonetic().convert, the crate riti links, called directly".into(),
            "the three parts are known by construction (no splitter in the oracle for the first clause)".into(),
            "second clause is differential against the suggestions-off context of the same process".into(),
        ]
    }
    fn minima(&self, _tier: Tier) -> Vec<(&'static str, u64)> {
        vec![("parts_judged", 50_000), ("parts_with_wrapping", 20_000), ("candidate_judged", 10_000), ("candidate_found_only_after_uncurling", 50)]
    }
    fn run_shard(&self, env: &Env, out: &mut Out) {
        let o = match PhonOracle::new() {
            Ok(o) => o,
            Err(e) => {
                out.note(format!("oracle: {e}"));
                return;
            }
        };
        let c = match mk(env) {
            Ok(c) => c,
            Err(p) => {
                out.violation("setup", format!("c03:setup-panic@{}", p.loc), json!({}), "context creation".into(), p.msg);
                return;
            }
        };
        let mut t = Tally::default();
        let mut rng = env.rng("c03");
        let thorough = env.tier == Tier::Thorough;
        // ---- words
        let lower: Vec<char> = ('a'..='z').collect();
        let alnum: Vec<char> = ('a'..='z').chain('A'..='Z').chain('0'..='9').collect();
        let mut words: Vec<String> = strings_upto(&lower, 3);
        if !thorough {
            let mut i = 0;
            words.retain(|w| {
                i += 1;
                w.len() < 3 || i % 3 == 0
            });
        }
        words.extend(strings_upto(&alnum, 2));
        let mut ack: Vec<&String> = o.ac.keys().filter(|k| !k.is_empty() && k.chars().all(|c| c.is_ascii_alphanumeric())).collect();
        ack.sort();
        words.extend(ack.into_iter().cloned());
        words.sort();
        words.dedup();
        let puncts = punct_strings(2);
        let mut wi = 0usize;
        for w in &words {
            let mine = env.mine(wi);
            wi += 1;
            if !mine {
                continue;
            }
            out.begin_case(|| json!({"clause": "parts", "word": w}));
            judge_parts(&c, &o, wi, "", w, "", out, &mut t);
            // every lead (trail empty) and every trail (lead empty) for a strided sample of words
            let stride = if thorough { 8 } else { 60 };
            if (wi / env.nshards) % stride == 0 {
                for p in &puncts[1..] {
                    judge_parts(&c, &o, wi, p, w, "", out, &mut t);
                    judge_parts(&c, &o, wi + 1, "", w, p, out, &mut t);
                }
                // sampled pairs
                let npairs = if thorough { 3000 } else { 300 };
                for _ in 0..npairs {
                    let l = rng.pick(&puncts).clone();
                    let tr = rng.pick(&puncts).clone();
                    judge_parts(&c, &o, rng.below(4), &l, w, &tr, out, &mut t);
                }
            } else {
                let l = rng.pick(&puncts).clone();
                let tr = rng.pick(&puncts).clone();
                judge_parts(&c, &o, rng.below(4), &l, w, &tr, out, &mut t);
            }
        }
        // random longer words with random wrapping up to 3
        let pch: Vec<char> = PUNCT.chars().collect();
        let nrand = env.tier.pick(4_000, 120_000);
        for _ in 0..nrand {
            let wl = rng.range(1, 12);
            let w: String = (0..wl).map(|_| { let lim = if rng.chance(4, 5) { 26 } else { alnum.len() }; alnum[rng.below(lim)] }).collect();
            let l: String = (0..rng.below(4)).map(|_| pch[rng.below(pch.len())]).collect();
            let tr: String = (0..rng.below(4)).map(|_| pch[rng.below(pch.len())]).collect();
            out.begin_case(|| json!({"clause": "parts", "lead": l, "word": w, "trail": tr}));
            judge_parts(&c, &o, rng.below(4), &l, &w, &tr, out, &mut t);
        }
        // ---- clause B
        let mut texts: Vec<String> = strings_upto(&all94(), 2);
        let sub: Vec<char> = SUB20.chars().collect();
        texts.extend(strings_upto(&sub, env.tier.pick(3, 4)));
        texts.sort();
        texts.dedup();
        for (i, tx) in texts.iter().enumerate() {
            if !env.mine(i) {
                continue;
            }
            out.begin_case(|| json!({"clause": "candidate", "text": tx}));
            judge_candidate(&c, i / env.nshards, tx, out, &mut t);
        }
        let nrand = env.tier.pick(1_500, 40_000);
        for i in 0..nrand {
            let tx = random_text(&mut rng, 10);
            out.begin_case(|| json!({"clause": "candidate", "text": tx}));
            judge_candidate(&c, i, &tx, out, &mut t);
        }
        // long words (30-48 letters; real ones reach 25-30, concatenations and key-mashing go beyond), wrapped, in both clauses
        let nlong = env.tier.pick(4, 40);
        for i in 0..nlong {
            let wl = 30 + (i * 7 + env.shard * 3) % 19;
            let syll = ["ko", "rmo", "bi", "na", "sha", "ti", "ddho", "pro", "ja", "nto", "e", "r", "k"];
            let mut w = String::new();
            while w.len() < wl {
                w.push_str(syll[rng.below(syll.len())]);
            }
            w.truncate(wl);
            let (l, tr) = [("(", ")"), ("\"", "\""), ("", "."), ("[", "?")][i % 4];
            out.begin_case(|| json!({"clause": "parts", "lead": l, "word": w, "trail": tr}));
            judge_parts(&c, &o, i % 4, l, &w, tr, out, &mut t);
            let tx = format!("{l}{w}{tr}");
            out.begin_case(|| json!({"clause": "candidate", "text": tx}));
            judge_candidate(&c, i, &tx, out, &mut t);
            t.long_words += 1;
        }
        out.count("long_words_30_to_48_letters", t.long_words);
        out.count("evaluations", t.events);
        out.count("parts_judged", t.parts_judged);
        out.count("parts_with_wrapping", t.parts_wrapped);
        out.count("parts_reached_by_typing_one_more_character_and_erasing_it", t.parts_after_slip);
        out.count("candidate_judged", t.cand_judged);
        out.count("candidate_found_only_after_uncurling", t.cand_curled);
    }
    fn replay(&self, env: &Env, case: &Value, out: &mut Out) {
        let Ok(o) = PhonOracle::new() else { return };
        let Ok(c) = mk(env) else { return };
        let mut t = Tally::default();
        let g = |k: &str| case.get(k).and_then(|v| v.as_str()).unwrap_or("").to_string();
        let spec = case.get("cfg").and_then(CfgSpec::from_json);
        if g("clause") == "parts" {
            let which = lonely_specs().iter().position(|s| Some(*s) == spec).unwrap_or(0);
            judge_parts(&c, &o, which, &g("lead"), &g("word"), &g("trail"), out, &mut t);
        } else {
            let which = list_specs().iter().position(|s| Some(*s) == spec).unwrap_or(0);
            judge_candidate(&c, which, &g("text"), out, &mut t);
        }
        out.count("evaluations", t.events);
    }
}
