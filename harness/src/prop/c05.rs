//! C05 — suggestions depend only on the surviving typed text, not on typing history.
//! Differential monitor: a warm, edited context vs. a context that types the surviving text directly.

use crate::base::*;
use crate::oracle::phon::split;
use crate::out::*;
use crate::prop::Prop;
use serde_json::{json, Value};

pub struct C05;

#[derive(Default)]
struct Tally {
    calls: u64,
    comparisons: u64,
    warm_memo: u64,
    rich_lists: u64,
    with_detour: u64,
    with_prior_words: u64,
    with_second_context: u64,
    learned_preselected: u64,
    true_fresh: u64,
    rechecked: u64,
    sugg_off: u64,
    final_bs: u64,
    final_dead: u64,
    max_memo: u64,
}
fn flush(t: &Tally, out: &mut Out) {
    out.count("evaluations", t.calls);
    out.count("comparisons", t.comparisons);
    out.count("comparisons_with_warm_memo_for_target", t.warm_memo);
    out.count("comparisons_with_4_or_more_candidates", t.rich_lists);
    out.count("comparisons_after_detours", t.with_detour);
    out.count("comparisons_after_prior_words", t.with_prior_words);
    out.count("comparisons_with_second_context_interleaved", t.with_second_context);
    out.count("comparisons_with_learned_preselection", t.learned_preselected);
    out.count("comparisons_against_truly_new_context", t.true_fresh);
    out.count("mismatches_rechecked_with_truly_new_context", t.rechecked);
    out.count("comparisons_with_suggestions_off", t.sugg_off);
    out.count("comparisons_whose_final_event_is_a_backspace", t.final_bs);
    out.count("comparisons_whose_final_event_is_a_key_without_character", t.final_dead);
    out.max("memo_entries_in_a_warm_context", t.max_memo);
}

const STORE: &str = r#"{"onno":"অন্য","ami":"আমই","as":"আশ","kotha":"কোথা","sesh":"শেষ","e":"এ","ebong":"এবং","hothat":"হঠাৎ","\"as\"":"আঁশ","amar":"আমার","kor":"কওর","kore":"কোরে","seshe":"সেশে"}"#;
const USER_AC: &str = r#"{"amar":"tomar","onno":"Onno","as":"ash","kk":"kOk"}"#;
const OTHER_STORE: &str = r#"{"ami":"আমি","as":"এস","sesh":"সেস"}"#;
const OTHER_AC: &str = r#"{"ami":"tumi","sesh":"shesh","as":"aS"}"#;

// (the last five are emoticons whose word part also has dictionary or auto-correct hits)
// (`korei` = kor+ei = kore+i and `sesher` = sesh+er = seshe+r: two learned bases split them; the engine must pick the same one every time)
const WORDS: [&str; 38] = [
    "onno", "onnogulo", "ami", "Ami", "amI", "amar", "amake", "as", "asgulo", "ase", "kotha", "kothay", "sesh", "seshe", "sesher", "ebong", "ebongmala", "hothat", "hothate", "e", "ei",
    "kor", "kore", "korei", "computer", "smile", "cool", "atm", "atme", "formate", "kkhetr", "kk", "a", "xD", "8D", "o:D", ":D", "xP",
];
const PUNCT: &str = "-]~!@#%&*()_=+[{}'\";<>/?|.,:`\\$^";
const LETTERS: &str = "abcdefghijklmnopqrstuvwxyzOIUTDNRSZ12";

const ENDS: [&str; 3] = ["finish", "ctrl-backspace", "commit-preselected"];

#[derive(Clone)]
struct Case {
    spec: CfgSpec,
    /// prior words with how each was ended (0 finish, 1 ctrl-backspace, 2 commit of the pre-selected index)
    prior: Vec<(String, u8)>,
    /// edit script reaching the target: chars typed ('\u{8}' = backspace)
    script: Vec<char>,
    target: String,
    sel: u8,
    second: bool,
    /// when Some: the final event is a backspace that deletes this extra character (typed with this selection byte) in the
    /// warm context; the reference deletes an extra 'k' instead (what is deleted does not survive)
    final_bs: Option<(char, u8)>,
    /// when Some: the final event is this key, which has no character (keypad Enter / keypad Equals), with the selection byte
    /// `sel`; the composition stays as it is. The warm context presses it right after its edit script (whose last key carried
    /// the byte `sel` as well), the reference after typing the target with byte 0, one more `k` and a backspace.
    final_dead: Option<u16>,
}

fn case_json(c: &Case) -> Value {
    let script: String = c.script.iter().map(|&ch| if ch == '\u{8}' { '⌫' } else { ch }).collect();
    json!({"cfg": c.spec.to_json(), "prior_words": c.prior.iter().map(|(w, e)| { let how = ENDS[*e as usize]; json!([w, how]) }).collect::<Vec<_>>(),
           "edit_script": script, "surviving_text": c.target, "final_selection_byte": c.sel, "second_context_interleaved": c.second,
           "final_event_is_backspace_deleting": c.final_bs.map(|(ch, b)| json!([ch.to_string(), b])),
           "final_event_is_a_key_without_character": c.final_dead,
           "user_files": {"phonetic-candidate-selection.json": STORE, "autocorrect.json": USER_AC}})
}

fn gen_case(rng: &mut Rng) -> Case {
    // a small pool of option sets, so that each warm context lives through hundreds of cases (thousands of memoised prefixes)
    const POOL: [u16; 6] = [O_PSUGG, O_PSUGG | O_ENG | O_SQ, O_PSUGG | O_SQ, O_PSUGG | O_ENG, O_PSUGG | O_ANSI | O_SQ, 0];
    let opts = if rng.chance(9, 10) { POOL[rng.below(5)] } else { POOL[5] };
    let spec = CfgSpec::new(Lay::Phonetic, opts);
    let punct: Vec<char> = PUNCT.chars().collect();
    let letters: Vec<char> = LETTERS.chars().collect();
    // target
    let mut t = String::new();
    for _ in 0..rng.below(3) {
        t.push(*rng.pick(&punct));
    }
    if rng.chance(2, 3) {
        t.push_str(WORDS[rng.below(WORDS.len())]);
    } else {
        for _ in 0..rng.range(1, 6) {
            t.push(*rng.pick(&letters));
        }
    }
    if rng.chance(1, 4) {
        t.push(*rng.pick(&punct));
        t.push(*rng.pick(&letters));
    }
    for _ in 0..rng.below(3) {
        t.push(*rng.pick(&punct));
    }
    let word = split(&t, false).1;
    // prior words: collide with the target (prefixes, extensions, case variants, other wrappings, suffix forms)
    let mut prior = vec![];
    for _ in 0..rng.below(7) {
        let w = match rng.below(8) {
            0 if word.len() > 1 && word.is_ascii() => word[..rng.range(1, word.len() - 1)].to_string(),
            1 => format!("{word}{}", rng.pick(&["e", "gulo", "r", "er", "ke", "mala", "i"])),
            2 => word.to_uppercase(),
            3 => format!("({word})"),
            4 => format!("\"{word}"),
            5 => {
                let mut cs: Vec<char> = word.chars().collect();
                if let Some(c) = cs.first_mut() {
                    *c = c.to_ascii_uppercase();
                }
                cs.into_iter().collect()
            }
            6 => {
                // a fresh random word: keeps the memo growing over the life of the context
                let n = rng.range(3, 7);
                (0..n).map(|_| letters[rng.below(26)]).collect()
            }
            _ => WORDS[rng.below(WORDS.len())].to_string(),
        };
        if !w.is_empty() && w.chars().all(|c| c.is_ascii_graphic()) {
            prior.push((w, rng.below(3) as u8));
        }
    }
    // edit script with detours
    let tc: Vec<char> = t.chars().collect();
    let mut cur: Vec<char> = vec![];
    let mut script = vec![];
    let mut guard = 0;
    while cur != tc && guard < 300 {
        guard += 1;
        let common = cur.iter().zip(tc.iter()).take_while(|(a, b)| a == b).count();
        if common < cur.len() {
            script.push('\u{8}');
            cur.pop();
            continue;
        }
        if rng.chance(1, 4) && !cur.is_empty() && cur.len() < tc.len() {
            if rng.chance(2, 3) {
                // a wrong character (often one that makes another known word), removed later
                let c = if rng.chance(1, 2) { *rng.pick(&letters) } else { *rng.pick(&punct) };
                script.push(c);
                cur.push(c);
            } else {
                script.push('\u{8}');
                cur.pop();
            }
            continue;
        }
        let c = tc[cur.len()];
        script.push(c);
        cur.push(c);
    }
    let final_bs = if rng.chance(1, 4) {
        let ch = if rng.chance(2, 3) { *rng.pick(&[',', '.', ')', '\'', '"', ':', ';', '!', '?', '-']) } else { *rng.pick(&letters) };
        Some((ch, rng.below(5) as u8))
    } else {
        None
    };
    let final_dead = if rng.chance(1, 6) { Some(*rng.pick(&[0x0E1Cu16, 0x0E0D])) } else { None };
    Case { spec, prior, script, target: t, sel: rng.below(3) as u8, second: rng.chance(1, 2), final_bs, final_dead }
}

/// Execute the case on the warm context; returns the rendering of the final event.
fn run_warm(warm: &Sess, other: Option<&Sess>, c: &Case, t: &mut Tally) -> Result<(Rs, bool), Panic> {
    let mut k = 0usize;
    let mut poke = |t: &mut Tally| -> Result<(), Panic> {
        if let Some(o) = other {
            k += 1;
            t.calls += 1;
            match k % 5 {
                0 => {
                    o.finish()?;
                }
                1 => {
                    o.bs(false)?;
                }
                _ => {
                    o.key(kc(['a', 'm', 'i', 's', 'e'][k % 5]), 0, 0)?;
                }
            }
        }
        Ok(())
    };
    for (w, end) in &c.prior {
        let mut last: Option<riti::suggestion::Suggestion> = None;
        let mut hl = 0u8;
        for ch in w.chars() {
            t.calls += 1;
            // protocol selection byte: what the front-end highlights, so that the echo of the punctuation keys
            // agrees with the engine's own pre-selection and the commit below does not learn anything
            let s = warm.key(kc(ch), 0, hl)?;
            hl = if s.is_lonely() { 0 } else { s.previously_selected_index().min(255) as u8 };
            last = Some(s);
            poke(t)?;
        }
        match end {
            0 => warm.finish()?,
            1 => {
                warm.bs(true)?;
            }
            _ => {
                // commit the pre-selected index: must not change the store
                let idx = last.as_ref().map(|s| if s.is_lonely() { 0 } else { s.previously_selected_index().min(s.len().saturating_sub(1)) }).unwrap_or(0);
                warm.commit(idx)?;
            }
        }
        t.calls += 1;
    }
    // the edit script; the final event must be the key of the last character with the chosen selection byte
    let n = c.script.len();
    let mut last = None;
    for (i, &ch) in c.script.iter().enumerate() {
        t.calls += 1;
        if ch == '\u{8}' {
            warm.bs(false)?;
        } else {
            let is_last = i + 1 == n;
            last = Some(warm.key(kc(ch), 0, if is_last { c.sel } else { 0 })?);
        }
        if i % 2 == 0 {
            poke(t)?;
        }
    }
    // if the script ended with a backspace, the final event is not a key: re-type the last character
    if c.script.last() == Some(&'\u{8}') || last.is_none() {
        warm.bs(false)?;
        last = Some(warm.key(kc(c.target.chars().last().unwrap()), 0, c.sel)?);
        t.calls += 2;
    }
    if let Some((ch, b)) = c.final_bs {
        warm.key(kc(ch), 0, b)?;
        last = Some(warm.bs(false)?);
        t.calls += 2;
    }
    if let Some(code) = c.final_dead {
        last = Some(warm.key(code, 0, c.sel)?);
        t.calls += 1;
    }
    // memo state before ending the word
    let st = warm.state();
    let word = split(&c.target, false).1;
    t.max_memo = t.max_memo.max(st.get("cache_keys").and_then(|k| k.as_array()).map_or(0, |a| a.len() as u64));
    let warm_memo = st.get("cache_keys").and_then(|k| k.as_array()).map_or(false, |a| a.iter().any(|x| x.as_str() == Some(word.as_str())));
    let rs = Rs::of(last.as_ref().unwrap());
    warm.finish()?;
    Ok((rs, warm_memo))
}

fn run_direct(r: &Sess, c: &Case, t: &mut Tally) -> Result<Rs, Panic> {
    let tc: Vec<char> = c.target.chars().collect();
    let mut last = None;
    for (i, ch) in tc.iter().enumerate() {
        t.calls += 1;
        last = Some(r.key(kc(*ch), 0, if i + 1 == tc.len() && c.final_dead.is_none() { c.sel } else { 0 })?);
    }
    if c.final_bs.is_some() || c.final_dead.is_some() {
        r.key(kc('k'), 0, 0)?;
        last = Some(r.bs(false)?);
        t.calls += 2;
    }
    if let Some(code) = c.final_dead {
        last = Some(r.key(code, 0, c.sel)?);
        t.calls += 1;
    }
    let rs = Rs::of(last.as_ref().unwrap());
    r.finish()?;
    Ok(rs)
}

fn install(root: &std::path::Path, store: &str, ac: &str) {
    fresh_root(root);
    std::fs::write(selection_file(root), store).unwrap();
    std::fs::write(autocorrect_file(root), ac).unwrap();
}

/// Full check with truly new contexts (confirmation, samples, replay).
fn check_true_fresh(c: &Case, root: &std::path::Path, root_other: &std::path::Path, out: &mut Out, t: &mut Tally) {
    install(root, STORE, USER_AC);
    install(root_other, OTHER_STORE, OTHER_AC);
    let (Ok(warm), Ok(fresh)) = (Sess::new(c.spec, root), Sess::new(c.spec, root)) else { return };
    let other = if c.second { Sess::new(CfgSpec::new(Lay::Phonetic, O_PSUGG | O_ENG), root_other).ok() } else { None };
    t.true_fresh += 1;
    judge(&warm, other.as_ref(), &fresh, c, out, t);
}

/// Replay the earlier cases of a warm context on a new context, then judge `c` against a truly new context.
fn confirm_with_history(hist: &[Case], c: &Case, root: &std::path::Path, root_other: &std::path::Path, out: &mut Out, t: &mut Tally) {
    install(root, STORE, USER_AC);
    install(root_other, OTHER_STORE, OTHER_AC);
    let (Ok(warm), Ok(fresh)) = (Sess::new(c.spec, root), Sess::new(c.spec, root)) else { return };
    let other = Sess::new(CfgSpec::new(Lay::Phonetic, O_PSUGG | O_ENG), root_other).ok();
    for h in hist {
        if run_warm(&warm, if h.second { other.as_ref() } else { None }, h, t).is_err() {
            let _ = warm.finish();
        }
    }
    t.true_fresh += 1;
    let mut scratch = Out::new("C05");
    if !judge(&warm, if c.second { other.as_ref() } else { None }, &fresh, c, &mut scratch, t) {
        for mut v in scratch.violations.drain(..) {
            v.case["earlier_cases_in_the_same_context"] = Value::Array(hist.iter().map(case_json).collect());
            v.observed = format!("{} [after {} earlier cases in the same context]", v.observed, hist.len());
            out.violation(&v.clause, v.sig, v.case, v.expected, v.observed);
        }
    }
}

fn judge(warm: &Sess, other: Option<&Sess>, reference: &Sess, c: &Case, out: &mut Out, t: &mut Tally) -> bool {
    let a = run_warm(warm, other, c, t);
    let b = run_direct(reference, c, t);
    match (a, b) {
        (Ok((a, warm_memo)), Ok(b)) => {
            // the store must have been held fixed (harness obligation); otherwise the case says nothing
            if std::fs::read_to_string(selection_file(&warm.root)).ok().as_deref() != Some(STORE) {
                out.count("cases_dropped_because_the_store_changed", 1);
                std::fs::write(selection_file(&warm.root), STORE).unwrap();
                return false;
            }
            t.comparisons += 1;
            if warm_memo {
                t.warm_memo += 1;
            }
            if a.list().map_or(false, |l| l.len() >= 4) {
                t.rich_lists += 1;
            }
            if c.script.len() > c.target.chars().count() {
                t.with_detour += 1;
            }
            if !c.prior.is_empty() {
                t.with_prior_words += 1;
            }
            if c.second {
                t.with_second_context += 1;
            }
            if a.sel().unwrap_or(0) > 0 {
                t.learned_preselected += 1;
            }
            if !c.spec.has(O_PSUGG) {
                t.sugg_off += 1;
            }
            if c.final_bs.is_some() {
                t.final_bs += 1;
            }
            if c.final_dead.is_some() {
                t.final_dead += 1;
            }
            out.distinct(fnv_str(&[&c.target, &c.spec.opts.to_string(), &c.sel.to_string(), &c.script.iter().collect::<String>()]));
            if out.want_sample() && t.comparisons % 1777 == 29 {
                out.sample(json!({"case": case_json(c), "rendering": a.to_json()}));
            }
            if a != b {
                let kind = match (&a, &b) {
                    (Rs::Full { list: la, sel: sa, .. }, Rs::Full { list: lb, sel: sb, .. }) => {
                        if la == lb && sa != sb {
                            "preselection"
                        } else if la.len() != lb.len() {
                            "candidate-set"
                        } else {
                            let mut x = la.clone();
                            let mut y = lb.clone();
                            x.sort();
                            y.sort();
                            if x == y { "order" } else { "candidate-set" }
                        }
                    }
                    _ => "shape",
                };
                let mut cj = case_json(c);
                cj["diff_kind"] = json!(kind);
                out.violation("history-independent", format!("c05:differs:{kind}:warm_memo={warm_memo}:sugg={}", c.spec.has(O_PSUGG)), cj,
                              format!("{} (a context that typed {:?} directly)", b.to_json(), c.target), format!("{} (after the history)", a.to_json()));
                return false;
            }
            true
        }
        (ra, rb) => {
            let _ = warm.finish();
            let _ = reference.finish();
            let p = ra.err().or(rb.err()).unwrap();
            out.violation("history-independent", format!("c05:panic@{}", p.loc), case_json(c), "both contexts answer".into(), format!("panic at {}: {}", p.loc, p.msg));
            false
        }
    }
}

fn parse_case(case: &Value) -> Option<Case> {
    let spec = case.get("cfg").and_then(CfgSpec::from_json)?;
    let prior: Vec<(String, u8)> = case
        .get("prior_words")
        .and_then(|p| p.as_array())
        .map(|a| {
            a.iter()
                .filter_map(|x| {
                    let w = x.get(0)?.as_str()?.to_string();
                    let e = ENDS.iter().position(|n| Some(*n) == x.get(1).and_then(|s| s.as_str()))? as u8;
                    Some((w, e))
                })
                .collect()
        })
        .unwrap_or_default();
    let script: Vec<char> = case.get("edit_script").and_then(|s| s.as_str()).unwrap_or("").chars().map(|c| if c == '⌫' { '\u{8}' } else { c }).collect();
    Some(Case {
        spec,
        prior,
        script,
        target: case.get("surviving_text").and_then(|s| s.as_str()).unwrap_or("").to_string(),
        sel: case.get("final_selection_byte").and_then(|s| s.as_u64()).unwrap_or(0) as u8,
        second: case.get("second_context_interleaved").and_then(|s| s.as_bool()).unwrap_or(false),
        final_bs: case.get("final_event_is_backspace_deleting").and_then(|f| f.as_array()).and_then(|a| Some((a.first()?.as_str()?.chars().next()?, a.get(1)?.as_u64()? as u8))),
        final_dead: case.get("final_event_is_a_key_without_character").and_then(|f| f.as_u64()).map(|k| k as u16),
    })
}

impl Prop for C05 {
    fn id(&self) -> &'static str {
        "C05"
    }
    fn rule(&self) -> String {
        "random cases: phonetic configuration drawn from a pool of 6 option sets (so that every warm context lives through hundreds of cases; memo sizes reached are reported under maxima); a pre-populated learned-selection store and user auto-correct file held fixed; \
         0-6 prior words drawn from a vocabulary built to collide with the target (its prefixes, extensions with suffixes, case variants, other wrappings, the 38 base words (5 of them emoticons with dictionary hits; two that two different learned bases split: korei = kor+ei = kore+i, sesher = sesh+er = seshe+r)) each ended by finish / ctrl-backspace / commit of the pre-selected index; \
         the target (wrapped/unwrapped known words and random strings) reached through an insert/backspace edit script with detours; a second context over another user directory with other options poked between events in half of the cases. \
         In a quarter of the cases the final event is a backspace that deletes an extra character (a punctuation key with a selection byte, or a letter) in the warm context and an extra k in the reference; in a sixth the final event is a key that has no character (keypad Enter / Equals) with the chosen selection byte, pressed by the warm context after its script and by the reference after the target, one more k and a backspace. Reference: a context whose method object is re-created (update_engine to another layout and back) before each comparison types the target directly with the same final selection byte; \
         every mismatch is re-checked from scratch (all earlier cases of that warm context are replayed on a new context, then the case is judged against a truly new context) before it is reported, and one case in 10 (quick) / 6 (thorough) uses truly new contexts directly. \
         Across processes: every worker process first asks the same 8 questions (word -> rendering) of a context over the bundled data, after having created a context over a second, small data directory first, afterwards, or not at all (by shard number); the orchestrator compares the answers of all shards. \
         distinct_nontrivial = distinct (target, options, selection byte, edit script) tuples compared."
            .into()
    }
    fn assumptions(&self) -> Vec<String> {
        vec![
            "the property is an equivalence, so the reference is the real engine in a new state".into(),
            "the store is not changed during a case (prior words are committed with the pre-selected index only)".into(),
            "a run in which fewer than 25% of the comparisons had a warm memo for the target, or fewer than 20% had 4 or more candidates, is inconclusive".into(),
        ]
    }
    fn shards(&self, tier: Tier) -> usize {
        tier.pick(16, 64)
    }
    fn minima(&self, tier: Tier) -> Vec<(&'static str, u64)> {
        let n = tier.pick(8_000, 150_000);
        vec![
            ("comparisons", n), ("comparisons_with_warm_memo_for_target", n / 4), ("comparisons_with_4_or_more_candidates", n / 5), ("comparisons_after_detours", n / 5),
            ("comparisons_with_second_context_interleaved", n / 4), ("comparisons_with_learned_preselection", n / 40), ("comparisons_whose_final_event_is_a_backspace", n / 8), ("comparisons_against_truly_new_context", n / 20), ("cross_process_answers_agreeing", 100),
        ]
    }
    fn run_shard(&self, env: &Env, out: &mut Out) {
        let mut t = Tally::default();
        let mut rng = env.rng("c05");
        let root = env.root("c05");
        let root_other = env.root("c05-other");
        let root_c = env.root("c05-confirm");
        let root_co = env.root("c05-confirm-other");
        install(&root, STORE, USER_AC);
        install(&root_other, OTHER_STORE, OTHER_AC);
        // ---- the same questions in worker processes with different populations of contexts: a context over a second
        // data directory is created first (shards 0, 3, ...), later (1, 4, ...) or never (2, 5, ...); the orchestrator
        // compares the answers of all shards (these are the first contexts of the process)
        {
            let proot = env.root("c05-population");
            install(&proot, STORE, USER_AC);
            let full = CfgSpec::new(Lay::Phonetic, O_PSUGG);
            let small = CfgSpec { lay: Lay::Phonetic, opts: O_PSUGG, small: true };
            let order = env.shard % 3;
            let wh = ["created a context over another data directory first", "created the probed context first and one over another data directory afterwards", "created no context over another data directory"][order];
            let early = if order == 0 { Sess::new(small, &proot).ok() } else { None };
            if let Some(s) = &early {
                let _ = s.type_text("kotha");
                let _ = s.finish();
            }
            if let Ok(f) = Sess::new(full, &proot) {
                let late = if order == 1 { Sess::new(small, &proot).ok() } else { None };
                let mut nq = 0u64;
                for w in ["ami", "kotha", "k", "tumi", "kaj", "asgulo", "academy", "onnoder"] {
                    let mut ask = |s: &Sess, db: &str, out: &mut Out| {
                        if let Ok(Some(x)) = s.type_text_protocol(w) {
                            out.xobs(format!("c05:other-contexts-in-the-process|data={db}|{}|{w}", s.spec.short()), Rs::of(&x).to_json().to_string(), wh);
                            nq += 1;
                        }
                        let _ = s.finish();
                    };
                    ask(&f, "bundled", out);
                    if let Some(s) = early.as_ref().or(late.as_ref()) {
                        ask(s, "small", out);
                    }
                }
                out.count("cross_process_questions_asked", nq);
            }
        }
        let n = env.tier.pick(700, 3000);
        let fresh_every = env.tier.pick(10, 6);
        let Ok(other) = Sess::new(CfgSpec::new(Lay::Phonetic, O_PSUGG | O_ENG), &root_other) else { return };
        // warm contexts per option mask live for the whole shard (that is the point: warm memo)
        let mut warm: std::collections::HashMap<u16, (Sess, Sess, Vec<Case>)> = std::collections::HashMap::new();
        for i in 0..n {
            let c = gen_case(&mut rng);
            out.begin_case(|| case_json(&c));
            if i % fresh_every == 0 {
                check_true_fresh(&c, &root_c, &root_co, out, &mut t);
                continue;
            }
            if !warm.contains_key(&c.spec.opts) {
                match (Sess::new(c.spec, &root), Sess::new(c.spec, &root)) {
                    (Ok(a), Ok(b)) => {
                        warm.insert(c.spec.opts, (a, b, vec![]));
                    }
                    _ => continue,
                }
            }
            let (w, r, hist) = warm.get_mut(&c.spec.opts).unwrap();
            // re-create the reference's method object: empty memo, store re-read
            let away = CfgSpec::new(Lay::Probhat, 0);
            if r.update(away).is_err() || r.update(c.spec).is_err() {
                warm.remove(&c.spec.opts);
                continue;
            }
            let mut scratch = Out::new("C05");
            let ok = judge(w, if c.second { Some(&other) } else { None }, r, &c, &mut scratch, &mut t);
            for h in scratch.distinct.iter() {
                out.distinct(*h);
            }
            for s in scratch.samples.drain(..) {
                out.sample(s);
            }
            if !ok {
                // only the verdict of a from-scratch run counts: the whole earlier life of the warm context is replayed
                // on a new context, then the case is judged against a truly new context
                t.rechecked += 1;
                confirm_with_history(hist, &c, &root_c, &root_co, out, &mut t);
                warm.remove(&c.spec.opts);
            } else {
                hist.push(c.clone());
            }
        }
        flush(&t, out);
    }
    fn replay(&self, env: &Env, case: &Value, out: &mut Out) {
        let Some(c) = parse_case(case) else { return };
        if c.target.is_empty() {
            return;
        }
        let mut t = Tally::default();
        if let Some(earlier) = case.get("earlier_cases_in_the_same_context").and_then(|e| e.as_array()) {
            let hist: Vec<Case> = earlier.iter().filter_map(parse_case).collect();
            confirm_with_history(&hist, &c, &env.root("c05"), &env.root("c05-other"), out, &mut t);
            flush(&t, out);
            return;
        }
        check_true_fresh(&c, &env.root("c05"), &env.root("c05-other"), out, &mut t);
        flush(&t, out);
    }
}
