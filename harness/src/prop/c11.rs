//! C11 — re-configuring a live context is equivalent to creating a new one.
//! Differential monitor: update_engine(cfg') on a used, idle context vs. a context newly created with cfg'.

use crate::base::*;
use crate::out::*;
use crate::prop::Prop;
use serde_json::{json, Value};
use std::path::Path;
use std::time::{Duration, SystemTime};

pub struct C11;

#[derive(Default)]
struct Tally {
    calls: u64,
    triples: u64,
    layout_changed: u64,
    method_changed: u64,
    option_flips_only: u64,
    with_ac_edit: u64,
    retyped_pre_edit_words: u64,
    continuation_events: u64,
    learning_commits_before: u64,
    ac_affected_lists: u64,
    second_updates: u64,
    intermediate_updates: u64,
    reused_config_object: u64,
    back_to_first_layout: u64,
    fixed_to_other_fixed: u64,
    single_flip: [u64; 11],
    linked_user_file: u64,
}
fn flush(t: &Tally, out: &mut Out) {
    out.count("evaluations", t.calls);
    out.count("triples_compared", t.triples);
    out.count("triples_whose_user_file_is_a_symbolic_link", t.linked_user_file);
    out.count("triples.layout_changed", t.layout_changed);
    out.count("triples.method_changed", t.method_changed);
    out.count("triples.same_layout_option_flips", t.option_flips_only);
    out.count("triples.autocorrect_edited_before_update", t.with_ac_edit);
    out.count("continuation_words_already_typed_before_the_edit", t.retyped_pre_edit_words);
    out.count("continuation_events_compared", t.continuation_events);
    out.count("learning_commits_before_update", t.learning_commits_before);
    out.count("continuation_lists_whose_first_candidate_comes_from_the_user_list", t.ac_affected_lists);
    out.count("second_updates_compared", t.second_updates);
    out.count("intermediate_updates", t.intermediate_updates);
    out.count("triples.configuration_object_reused_through_setters", t.reused_config_object);
    out.count("triples.back_to_the_first_layout_after_another", t.back_to_first_layout);
    out.count("triples.fixed_layout_to_other_fixed_layout", t.fixed_to_other_fixed);
    for (i, n) in t.single_flip.iter().enumerate() {
        out.count(&format!("single_option_flip.{}", OPT_NAMES[i]), *n);
    }
}

/// A "word" is a string: ASCII characters are main-block keys, ¹ ² ÷ number-pad keys, and a private-use character
/// U+E000 + modifier * 256 + index into the key table stands for that key with that modifier (probe words built from
/// the layout files use these, e.g. the AltGr keys of the synthetic layout).
fn enc(code: u16, m: u8) -> char {
    let i = keys().iter().position(|k| k.code == code).expect("key in table");
    char::from_u32(0xE000 + (m as u32) * 256 + i as u32).unwrap()
}
fn key_of(c: char) -> (u16, u8) {
    let kp = |n: &str| keys().iter().find(|k| k.name == n).unwrap().code;
    match c {
        '¹' => (kp("VC_KP_1"), 0),
        '²' => (kp("VC_KP_2"), 0),
        '÷' => (kp("VC_KP_DIVIDE"), 0),
        c if (0xE000..0xE400).contains(&(c as u32)) => {
            let v = c as u32 - 0xE000;
            (keys()[(v % 256) as usize].code, (v / 256) as u8)
        }
        c => (kc(c), 0),
    }
}
/// Probe words for a fixed layout: one per composition helper, typed through the keys the layout file assigns
/// (so that every option has a continuation whose outcome depends on it).
fn probes(lay: Lay) -> Vec<String> {
    let Ok(o) = crate::oracle::layout::LayoutOracle::load(lay) else { return vec![] };
    let w = |vals: &[&str]| -> Option<String> { vals.iter().map(|v| o.key_for_value(v).map(|(k, m)| enc(k, m))).collect() };
    [
        w(&["া", "ক"]),                    // automatic vowel
        w(&["ক", "ঁ", "া"]),               // automatic chandrabindu position
        w(&["ক", "ু", "ত", "ৃ"]),          // traditional joining
        w(&["ক", "ত", "া", "র্"]),         // old-style reph (synthetic layout only)
        w(&["ি", "ক", "ে", "ত", "া"]),     // old vowel-sign order
        w(&["ক", "্", "ি"]),               // hasanta + sign
        w(&["\"", "ক", "\""]),             // smart quotes
        w(&["ক", "্র", "র", "্য"]),        // fola keys (synthetic layout only)
    ]
    .into_iter()
    .flatten()
    .collect()
}
// the first three contain number-pad keys; "academy" has an entry in the bundled auto-correct list, "hongkonge" needs the
// suffix table; the last four compose Bengali emoji names on the fixed layouts (হাসি, লল, কুল, "হাসি")
const WORDS: [&str; 26] = ["k¹", "¹²÷", "a÷¹", "amar", "as", "kotha", "ami", "onno", "amare", "asgulo", "kothay", "tumi", "(amar)", "\"as\"", "kk", "amargulo", "onnoder", "a", "bd", "academy", "hongkonge", "academyr", "hasi", "ll", "kul", "\"hasi\""];
const LAYS: [Lay; 4] = [Lay::Phonetic, Lay::Probhat, Lay::Verif, Lay::Twin];
const ACS: [&str; 9] = [
    r#"{"amar":"tomar","as":"ash"}"#,
    r#"{"amar":"kemon","kotha":"kOtha"}"#,
    r#"{}"#,
    r#"{"ami":"tumi","as":"asha","onno":"Onno","kk":"kOk"}"#,
    r#"{"bd":"bangladesh","amar":"amaR"}"#,
    r#"{"as":"","kotha":"kotha"}"#,
    // damaged by the edit: to be treated as absent from then on
    r#"{"amar":"tomar","as":"#,
    "",
    r#"["amar","tomar"]"#,
];

#[derive(Clone)]
enum Act {
    /// type a word; end it with finish (None) or commit of (pre-selected + k) mod len
    Word(String, Option<usize>),
    /// rewrite the user auto-correct file (index into ACS) with a strictly later mtime
    EditAc(usize),
    /// update_engine with the *same* configuration (picks up an edited file), while idle
    UpdateSame,
}

struct Case {
    a: CfgSpec,
    /// configurations the context passes through (update_engine while idle, then optionally a word) before the update under test
    via: Vec<(CfgSpec, Option<String>)>,
    /// how each update_engine call (the intermediate ones, then the one under test) is given its configuration: see `Sess::update_with`
    modes: Vec<u8>,
    b: CfgSpec,
    initial_ac: Option<usize>,
    before: Vec<Act>,
    after: Vec<(String, Option<usize>)>,
}

fn act_json(a: &Act) -> Value {
    match a {
        Act::Word(w, c) => json!({"type": w, "end": match c { None => json!("finish"), Some(k) => json!(["commit", k]) }}),
        Act::EditAc(i) => json!({"rewrite_user_autocorrect": ACS[*i]}),
        Act::UpdateSame => json!("update_engine(same configuration)"),
    }
}
fn case_json(c: &Case) -> Value {
    json!({"cfg_before": c.a.to_json(), "cfg_after": c.b.to_json(),
           "intermediate_updates": c.via.iter().map(|(s, w)| json!({"cfg": s.to_json(), "then_type": w})).collect::<Vec<_>>(), "config_delivery": c.modes,
           "initial_user_autocorrect": c.initial_ac.map(|i| ACS[i]),
           "initial_store": STORE, "before_update": c.before.iter().map(act_json).collect::<Vec<_>>(),
           "after_update": c.after.iter().map(|(w, e)| act_json(&Act::Word(w.clone(), *e))).collect::<Vec<_>>()})
}

const STORE: &str = r#"{"onno":"অন্য","as":"আশ"}"#;

fn random_spec(rng: &mut Rng, lay: Lay) -> CfgSpec {
    let mut opts = (rng.next() & O_ALL as u64) as u16;
    if rng.chance(3, 4) {
        opts |= if lay.is_fixed() { O_FSUGG } else { O_PSUGG };
    }
    CfgSpec::new(lay, opts)
}

fn gen_case(rng: &mut Rng, probe: &dyn Fn(Lay) -> Vec<String>) -> Case {
    let la = LAYS[rng.below(4)];
    let a = random_spec(rng, la);
    let flip1 = |rng: &mut Rng, s: CfgSpec| CfgSpec::new(s.lay, s.opts ^ (1 << rng.below(11)));
    // intermediate configurations (a third of the cases): single flips, other layouts
    let mut via: Vec<(CfgSpec, Option<String>)> = vec![];
    if rng.chance(1, 3) {
        let mut cur = a;
        for _ in 0..rng.range(1, 2) {
            cur = if rng.chance(1, 2) { flip1(rng, cur) } else { let l = LAYS[rng.below(4)]; random_spec(rng, l) };
            let w = if rng.chance(1, 2) { Some(WORDS[rng.below(WORDS.len())].to_string()) } else { None };
            via.push((cur, w));
        }
    }
    let last = via.last().map(|v| v.0).unwrap_or(a);
    let b = match rng.below(8) {
        // same layout, exactly one option flipped (every option gets its turn)
        0 | 1 => flip1(rng, last),
        2 => {
            // same layout, 2-3 option flips
            let mut o = last.opts;
            for _ in 0..rng.range(2, 3) {
                o ^= 1 << rng.below(11);
            }
            CfgSpec::new(last.lay, o)
        }
        // pure reload, or back to the first configuration (layout A -> B -> A, option on -> off -> on)
        3 => a,
        4 if !via.is_empty() => CfgSpec::new(a.lay, last.opts),
        _ => {
            let l = LAYS[rng.below(4)];
            random_spec(rng, l)
        }
    };
    let modes: Vec<u8> = (0..=via.len()).map(|_| rng.below(5) as u8).collect();
    let mut before = vec![];
    let mut typed: Vec<String> = vec![];
    for _ in 0..rng.below(5) {
        let w = WORDS[rng.below(WORDS.len())].to_string();
        typed.push(w.clone());
        before.push(Act::Word(w, if rng.chance(1, 3) { Some(rng.below(4)) } else { None }));
    }
    for _ in 0..rng.below(3) {
        before.push(Act::EditAc(rng.below(ACS.len())));
        if rng.chance(1, 2) {
            before.push(Act::UpdateSame);
            let w = WORDS[rng.below(WORDS.len())].to_string();
            typed.push(w.clone());
            before.push(Act::Word(w, None));
        }
    }
    let mut after = vec![];
    for _ in 0..rng.range(1, 6) {
        // words that were already typed before the edit, as well as new ones
        let w = if !typed.is_empty() && rng.chance(1, 2) { typed[rng.below(typed.len())].clone() } else { WORDS[rng.below(WORDS.len())].to_string() };
        after.push((w, if rng.chance(1, 4) { Some(rng.below(3)) } else { None }));
    }
    // probe words of the new layout: all of them when one helper was flipped, two otherwise
    let pr = probe(b.lay);
    if !pr.is_empty() {
        if last.lay == b.lay && (last.opts ^ b.opts).count_ones() == 1 {
            after.extend(pr.iter().map(|w| (w.clone(), None)));
        } else {
            for _ in 0..2 {
                after.push((pr[rng.below(pr.len())].clone(), None));
            }
        }
    }
    // one case in eight: the suggestion switch of a phonetic context is flipped right after a word with a learned
    // (non-first) pre-selection was committed as pre-selected, and the continuation commits its words
    if rng.chance(1, 8) {
        let a = CfgSpec::new(Lay::Phonetic, a.opts | O_PSUGG);
        let b = CfgSpec::new(Lay::Phonetic, a.opts & !O_PSUGG);
        let w = ["onno", "as"][rng.below(2)].to_string();
        before.push(Act::Word(w.clone(), Some(0)));
        let mut after = after;
        after.insert(0, (w, Some(0)));
        after.insert(1, (["onno", "as", "ami"][rng.below(3)].to_string(), Some(0)));
        return Case { a, via: vec![], modes: vec![rng.below(5) as u8], b, initial_ac: if rng.chance(2, 3) { Some(rng.below(ACS.len())) } else { None }, before, after };
    }
    Case { a, via, modes, b, initial_ac: if rng.chance(2, 3) { Some(rng.below(ACS.len())) } else { None }, before, after }
}

fn write_ac(root: &Path, content: &str, mtime: SystemTime) {
    let p = autocorrect_file(root);
    // a user who keeps the list elsewhere (a synchronised folder) and links it: the target is edited in place; the time
    // stamp that matters is the target's
    if std::fs::symlink_metadata(&p).map(|m| m.file_type().is_symlink()).unwrap_or(false) {
        std::fs::write(&p, content).unwrap();
        let f = std::fs::File::options().write(true).open(&p).unwrap();
        f.set_modified(mtime).unwrap();
        return;
    }
    // editors differ: rewrite in place, write aside and rename over, or remove and create (chosen by the content's length)
    match content.len() % 3 {
        0 => std::fs::write(&p, content).unwrap(),
        1 => {
            let tmp = p.with_extension("edit");
            std::fs::write(&tmp, content).unwrap();
            std::fs::rename(&tmp, &p).unwrap();
        }
        _ => {
            let _ = std::fs::remove_file(&p);
            std::fs::write(&p, content).unwrap();
        }
    }
    let f = std::fs::File::options().write(true).open(&p).unwrap();
    f.set_modified(mtime).unwrap();
}

/// Type `w` (keys exist in every layout: ASCII main block) and end the word; returns the renderings of every step.
fn type_word(s: &Sess, w: &str, end: Option<usize>, t: &mut Tally) -> Result<(Vec<String>, bool), Panic> {
    let mut outv = vec![];
    let mut last = None;
    let mut hl = 0u8;
    for c in w.chars() {
        t.calls += 1;
        let (code, m) = key_of(c);
        let sg = s.key(code, m, hl)?;
        hl = if sg.is_lonely() { 0 } else { sg.previously_selected_index().min(255) as u8 };
        outv.push(format!("{} ongoing={}", Rs::of(&sg).to_json(), s.ongoing()?));
        last = Some(sg);
    }
    let mut learned = false;
    t.calls += 1;
    match (end, last) {
        (Some(k), Some(sg)) if !sg.is_empty() => {
            let n = if sg.is_lonely() { 1 } else { sg.len() };
            let sel = if sg.is_lonely() { 0 } else { sg.previously_selected_index().min(n - 1) };
            let idx = (sel + k) % n;
            learned = idx != sel;
            s.commit(idx)?;
        }
        _ => s.finish()?,
    }
    outv.push(format!("ongoing={}", s.ongoing()?));
    Ok((outv, learned))
}

fn run_case(c: &Case, root: &Path, out: &mut Out, t: &mut Tally) {
    fresh_root(root);
    std::fs::write(selection_file(root), STORE).unwrap();
    let mut mtime = SystemTime::now() - Duration::from_secs(3600);
    // in a sixth of the cases (by the shape of the case) the user's file is a symbolic link to a file in another directory
    if (c.before.len() + c.after.len() * 3 + c.via.len()) % 6 == 0 {
        let target = root.join("elsewhere-autocorrect.json");
        std::fs::write(&target, "{}").unwrap();
        if let Ok(f) = std::fs::File::options().write(true).open(&target) {
            let _ = f.set_modified(mtime - Duration::from_secs(60));
        }
        let _ = std::os::unix::fs::symlink(&target, autocorrect_file(root));
        t.linked_user_file += 1;
    }
    if let Some(i) = c.initial_ac {
        write_ac(root, ACS[i], mtime);
    }
    let fail = |out: &mut Out, what: &str, p: &Panic| {
        out.violation("update-equals-new-context", format!("c11:panic@{}:{what}", p.loc), case_json(c), format!("{what} returns"), format!("panic at {}: {}", p.loc, p.msg));
    };
    let mut u = match Sess::new(c.a, root) {
        Ok(s) => s,
        Err(p) => return fail(out, "creating the context", &p),
    };
    let mut edited = false;
    let mut last_ac: Option<usize> = c.initial_ac;
    for a in &c.before {
        match a {
            Act::Word(w, e) => match type_word(&u, w, *e, t) {
                Ok((_, learned)) => {
                    if learned {
                        t.learning_commits_before += 1;
                    }
                }
                Err(p) => return fail(out, "typing before the update", &p),
            },
            Act::EditAc(i) => {
                // the file system keeps nanoseconds: an edit is later by 2 s, 10 ms or 1 us (by document index)
                mtime += [Duration::from_secs(2), Duration::from_millis(10), Duration::from_micros(1)][*i % 3];
                write_ac(root, ACS[*i], mtime);
                edited = true;
                last_ac = Some(*i);
            }
            Act::UpdateSame => {
                t.calls += 1;
                if let Err(p) = u.update(c.a) {
                    return fail(out, "update_engine (same configuration)", &p);
                }
            }
        }
    }
    for (i, (spec, w)) in c.via.iter().enumerate() {
        t.calls += 1;
        t.intermediate_updates += 1;
        if let Err(p) = u.update_with(*spec, c.modes[i]) {
            return fail(out, "intermediate update_engine", &p);
        }
        if let Some(w) = w {
            if let Err(p) = type_word(&u, w, None, t) {
                return fail(out, "typing between the updates", &p);
            }
        }
    }
    // the update under test (the context is idle: every word was ended)
    t.calls += 1;
    let mode = *c.modes.last().unwrap_or(&0);
    if mode != 0 {
        t.reused_config_object += 1;
    }
    if c.via.iter().any(|(s, _)| s.lay != c.a.lay) && c.b.lay == c.a.lay {
        t.back_to_first_layout += 1;
    }
    if let Err(p) = u.update_with(c.b, mode) {
        return fail(out, "update_engine", &p);
    }
    let f = match Sess::new(c.b, root) {
        Ok(s) => s,
        Err(p) => return fail(out, "creating the reference context", &p),
    };
    t.triples += 1;
    let last = c.via.last().map(|v| v.0).unwrap_or(c.a);
    if last.lay != c.b.lay {
        t.layout_changed += 1;
        if last.lay.is_fixed() != c.b.lay.is_fixed() {
            t.method_changed += 1;
        }
        if last.lay.is_fixed() && c.b.lay.is_fixed() {
            t.fixed_to_other_fixed += 1;
        }
    } else {
        t.option_flips_only += 1;
        if (last.opts ^ c.b.opts).count_ones() == 1 {
            t.single_flip[(last.opts ^ c.b.opts).trailing_zeros() as usize] += 1;
        }
    }
    if edited {
        t.with_ac_edit += 1;
    }
    let typed_before: Vec<&String> = c.before.iter().filter_map(|a| if let Act::Word(w, _) = a { Some(w) } else { None }).collect();
    out.distinct(fnv_str(&[&c.a.short(), &c.b.short(), &c.before.len().to_string(), &c.after.iter().map(|(w, _)| w.as_str()).collect::<Vec<_>>().join(",")]));
    let user: serde_json::Map<String, Value> = last_ac.and_then(|i| serde_json::from_str::<Value>(ACS[i]).ok()).and_then(|v| v.as_object().cloned()).unwrap_or_default();
    for (w, e) in &c.after {
        if typed_before.contains(&w) && edited {
            t.retyped_pre_edit_words += 1;
        }
        let (ra, rb) = (type_word(&u, w, *e, t), type_word(&f, w, *e, t));
        match (ra, rb) {
            (Ok((a, _)), Ok((b, _))) => {
                t.continuation_events += a.len() as u64;
                if !c.b.lay.is_fixed() && c.b.has(O_PSUGG) && user.contains_key(crate::oracle::phon::split(w, false).1.as_str()) {
                    t.ac_affected_lists += 1;
                }
                if a != b {
                    let k = a.iter().zip(&b).position(|(x, y)| x != y).unwrap_or(0);
                    let kind = if edited && typed_before.contains(&w) {
                        "word-typed-before-autocorrect-edit"
                    } else if edited {
                        "after-autocorrect-edit"
                    } else if !c.via.is_empty() {
                        "after-intermediate-updates"
                    } else if c.a.lay != c.b.lay {
                        "layout-change"
                    } else {
                        "option-change"
                    };
                    let mut cj = case_json(c);
                    cj["differs_at"] = json!({"word": w, "step": k});
                    out.violation("update-equals-new-context", format!("c11:differs:{kind}:{}->{}", c.a.lay.name(), c.b.lay.name()), cj,
                                  format!("{} (a context newly created with the new configuration)", b.get(k).cloned().unwrap_or_default()), format!("{} (the updated context)", a.get(k).cloned().unwrap_or_default()));
                    return;
                }
            }
            (ra, rb) => {
                let p = ra.err().or(rb.err()).unwrap();
                return fail(out, "typing after the update", &p);
            }
        }
    }
    // A second re-configuration of both contexts (suggestions switched on where the method has them) and the same words
    // once more: what the continuation left behind in the updated context (learned entries, memo, stale indices) must not
    // differ from what it left in the new one.
    let on = if c.b.lay.is_fixed() { O_FSUGG } else { O_PSUGG };
    let spec_c = c.b.with(on);
    t.calls += 2;
    let mut f = f;
    if let Err(p) = u.update_with(spec_c, mode).and_then(|_| f.update(spec_c)) {
        return fail(out, "second update_engine", &p);
    }
    t.second_updates += 1;
    for (w, _) in &c.after {
        match (type_word(&u, w, None, t), type_word(&f, w, None, t)) {
            (Ok((a, _)), Ok((b, _))) => {
                t.continuation_events += a.len() as u64;
                if a != b {
                    let k = a.iter().zip(&b).position(|(x, y)| x != y).unwrap_or(0);
                    let mut cj = case_json(c);
                    cj["differs_at"] = json!({"word": w, "step": k, "after_second_update_to": spec_c.to_json()});
                    out.violation("update-equals-new-context", format!("c11:differs:after-second-update:{}->{}", c.a.lay.name(), c.b.lay.name()), cj,
                                  format!("{} (the context that was newly created with the first new configuration)", b.get(k).cloned().unwrap_or_default()), format!("{} (the context that was updated twice)", a.get(k).cloned().unwrap_or_default()));
                    return;
                }
            }
            (ra, rb) => {
                let p = ra.err().or(rb.err()).unwrap();
                return fail(out, "typing after the second update", &p);
            }
        }
    }
    if out.want_sample() && t.triples % 397 == 3 {
        out.sample(case_json(c));
    }
}

impl Prop for C11 {
    fn id(&self) -> &'static str {
        "C11"
    }
    fn rule(&self) -> String {
        "random triples (configuration before, history, configuration after): layouts phonetic / Probhat / synthetic / a second file called Probhat.json in another directory with keys exchanged, random options; in a third of the cases the context first passes through 1-2 intermediate configurations (single flips or other layouts, optionally a word typed under each) and then often returns to the first layout or configuration; each update_engine receives either a newly built configuration object or the session's own object changed through its setters (all setters or only the changed ones, in either order); the new configuration is a single option flip on the same layout (1/4), 2-3 flips (1/8), the same configuration (pure reload, 1/8) or a random configuration on a random layout (1/2); \
         before the update: 0-4 words typed and finished or committed (learning commits included), 0-2 rewrites of the user auto-correct file (9 documents incl. empty object, an empty-string value and three damaged ones) with explicitly increasing mtime (by 2 s, 10 ms or 1 us), written in place / aside and renamed over / removed and created, optionally an update_engine with the same configuration and another word; \
         after the update: 1-6 words (incl. number-pad keys, a word with a bundled auto-correct entry, suffixed words), half of them words already typed before the edit, plus probe words built from the new layout's file for every composition helper (all eight after a single-option flip, two otherwise), typed in the updated context and in a context newly created with the new configuration over the same user files; every key's rendering, the flag and the commits are compared; then both contexts are re-configured once more (suggestions on) and the same words are typed again and compared. \
         distinct_nontrivial = distinct (configuration pair, history shape, continuation words) triples compared."
            .into()
    }
    fn assumptions(&self) -> Vec<String> {
        vec![
            "the property is an equivalence, so the reference is a newly created context".into(),
            "the user file is only edited (rewritten with a later mtime), never deleted, and mtimes never go backwards".into(),
        ]
    }
    fn shards(&self, tier: Tier) -> usize {
        tier.pick(16, 64)
    }
    fn minima(&self, _tier: Tier) -> Vec<(&'static str, u64)> {
        vec![
            ("triples_compared", 1_500), ("triples.layout_changed", 300), ("triples.method_changed", 200), ("triples.same_layout_option_flips", 300), ("triples.autocorrect_edited_before_update", 500),
            ("continuation_words_already_typed_before_the_edit", 300), ("continuation_lists_whose_first_candidate_comes_from_the_user_list", 150), ("learning_commits_before_update", 100), ("second_updates_compared", 1_000), ("triples.configuration_object_reused_through_setters", 800), ("triples.back_to_the_first_layout_after_another", 30), ("triples.fixed_layout_to_other_fixed_layout", 200),
            ("single_option_flip.reph", 10), ("single_option_flip.numpad", 10), ("single_option_flip.sq", 10), ("single_option_flip.ansi", 10), ("single_option_flip.psugg", 10), ("single_option_flip.karorder", 10),
        ]
    }
    fn run_shard(&self, env: &Env, out: &mut Out) {
        let mut t = Tally::default();
        let mut rng = env.rng("c11");
        let root = env.root("c11");
        let n = env.tier.pick(320, 2400);
        let pr: std::collections::HashMap<Lay, Vec<String>> = LAYS.iter().map(|l| (*l, if l.is_fixed() { probes(*l) } else { vec![] })).collect();
        for _ in 0..n {
            let c = gen_case(&mut rng, &|l| pr[&l].clone());
            out.begin_case(|| case_json(&c));
            run_case(&c, &root, out, &mut t);
        }
        flush(&t, out);
    }
    fn replay(&self, env: &Env, case: &Value, out: &mut Out) {
        let (Some(a), Some(b)) = (case.get("cfg_before").and_then(CfgSpec::from_json), case.get("cfg_after").and_then(CfgSpec::from_json)) else { return };
        let ac_idx = |v: &Value| v.as_str().and_then(|s| ACS.iter().position(|x| *x == s));
        let parse_word = |v: &Value| -> Option<(String, Option<usize>)> {
            let w = v.get("type")?.as_str()?.to_string();
            let e = v.get("end")?;
            Some((w, if e.is_string() { None } else { e.get(1).and_then(|k| k.as_u64()).map(|k| k as usize) }))
        };
        let mut before = vec![];
        for x in case.get("before_update").and_then(|b| b.as_array()).cloned().unwrap_or_default() {
            if let Some((w, e)) = parse_word(&x) {
                before.push(Act::Word(w, e));
            } else if let Some(i) = x.get("rewrite_user_autocorrect").and_then(ac_idx) {
                before.push(Act::EditAc(i));
            } else if x.is_string() {
                before.push(Act::UpdateSame);
            }
        }
        let after: Vec<(String, Option<usize>)> = case.get("after_update").and_then(|b| b.as_array()).map(|a| a.iter().filter_map(parse_word).collect()).unwrap_or_default();
        let via: Vec<(CfgSpec, Option<String>)> = case.get("intermediate_updates").and_then(|v| v.as_array()).map(|a| {
            a.iter().filter_map(|x| Some((x.get("cfg").and_then(CfgSpec::from_json)?, x.get("then_type").and_then(|w| w.as_str()).map(|w| w.to_string())))).collect()
        }).unwrap_or_default();
        let mut modes: Vec<u8> = case.get("config_delivery").and_then(|v| v.as_array()).map(|a| a.iter().map(|m| m.as_u64().unwrap_or(0) as u8).collect()).unwrap_or_default();
        modes.resize(via.len() + 1, 0);
        let c = Case { a, via, modes, b, initial_ac: case.get("initial_user_autocorrect").and_then(ac_idx), before, after };
        let mut t = Tally::default();
        run_case(&c, &env.root("c11"), out, &mut t);
        flush(&t, out);
    }
}
