//! C11 — re-configuring a live context is equivalent to creating a new one.
//! Differential monitor: update_engine(cfg') on a used, idle context vs. a context newly created with cfg'.

use crate::base::*;
use crate::out::*;
use crate::prop::Prop;
use serde_json::{json, Value};
use std::path::Path;
use std::time::{Duration, SystemTime};

pub struct C11;

#[derive(Default)]
struct Tally {
    calls: u64,
    triples: u64,
    layout_changed: u64,
    method_changed: u64,
    option_flips_only: u64,
    with_ac_edit: u64,
    retyped_pre_edit_words: u64,
    continuation_events: u64,
    learning_commits_before: u64,
    ac_affected_lists: u64,
    second_updates: u64,
}
fn flush(t: &Tally, out: &mut Out) {
    out.count("evaluations", t.calls);
    out.count("triples_compared", t.triples);
    out.count("triples.layout_changed", t.layout_changed);
    out.count("triples.method_changed", t.method_changed);
    out.count("triples.same_layout_option_flips", t.option_flips_only);
    out.count("triples.autocorrect_edited_before_update", t.with_ac_edit);
    out.count("continuation_words_already_typed_before_the_edit", t.retyped_pre_edit_words);
    out.count("continuation_events_compared", t.continuation_events);
    out.count("learning_commits_before_update", t.learning_commits_before);
    out.count("continuation_lists_whose_first_candidate_comes_from_the_user_list", t.ac_affected_lists);
    out.count("second_updates_compared", t.second_updates);
}

// the first three contain number-pad keys; the last four compose Bengali emoji names on the fixed layouts (হাসি, লল, কুল, "হাসি")
/// characters that stand for number-pad keys in the word list
fn key_of(c: char) -> u16 {
    let kp = |n: &str| keys().iter().find(|k| k.name == n).unwrap().code;
    match c {
        '¹' => kp("VC_KP_1"),
        '²' => kp("VC_KP_2"),
        '÷' => kp("VC_KP_DIVIDE"),
        c => kc(c),
    }
}
const WORDS: [&str; 23] = ["k¹", "¹²÷", "a÷¹", "amar", "as", "kotha", "ami", "onno", "amare", "asgulo", "kothay", "tumi", "(amar)", "\"as\"", "kk", "amargulo", "onnoder", "a", "bd", "hasi", "ll", "kul", "\"hasi\""];
const ACS: [&str; 6] = [
    r#"{"amar":"tomar","as":"ash"}"#,
    r#"{"amar":"kemon","kotha":"kOtha"}"#,
    r#"{}"#,
    r#"{"ami":"tumi","as":"asha","onno":"Onno","kk":"kOk"}"#,
    r#"{"bd":"bangladesh","amar":"amaR"}"#,
    r#"{"as":"","kotha":"kotha"}"#,
];

#[derive(Clone)]
enum Act {
    /// type a word; end it with finish (None) or commit of (pre-selected + k) mod len
    Word(String, Option<usize>),
    /// rewrite the user auto-correct file (index into ACS) with a strictly later mtime
    EditAc(usize),
    /// update_engine with the *same* configuration (picks up an edited file), while idle
    UpdateSame,
}

struct Case {
    a: CfgSpec,
    b: CfgSpec,
    initial_ac: Option<usize>,
    before: Vec<Act>,
    after: Vec<(String, Option<usize>)>,
}

fn act_json(a: &Act) -> Value {
    match a {
        Act::Word(w, c) => json!({"type": w, "end": match c { None => json!("finish"), Some(k) => json!(["commit", k]) }}),
        Act::EditAc(i) => json!({"rewrite_user_autocorrect": ACS[*i]}),
        Act::UpdateSame => json!("update_engine(same configuration)"),
    }
}
fn case_json(c: &Case) -> Value {
    json!({"cfg_before": c.a.to_json(), "cfg_after": c.b.to_json(), "initial_user_autocorrect": c.initial_ac.map(|i| ACS[i]),
           "initial_store": STORE, "before_update": c.before.iter().map(act_json).collect::<Vec<_>>(),
           "after_update": c.after.iter().map(|(w, e)| act_json(&Act::Word(w.clone(), *e))).collect::<Vec<_>>()})
}

const STORE: &str = r#"{"onno":"অন্য","as":"আশ"}"#;

fn random_spec(rng: &mut Rng, lay: Lay) -> CfgSpec {
    let mut opts = (rng.next() & O_ALL as u64) as u16;
    if rng.chance(3, 4) {
        opts |= if lay.is_fixed() { O_FSUGG } else { O_PSUGG };
    }
    CfgSpec::new(lay, opts)
}

fn gen_case(rng: &mut Rng) -> Case {
    let la = Lay::ALL[rng.below(3)];
    let a = random_spec(rng, la);
    let b = match rng.below(8) {
        0 | 1 => {
            // same layout, exactly one option flipped (every option gets its turn)
            CfgSpec::new(la, a.opts ^ (1 << rng.below(11)))
        }
        2 => {
            // same layout, 2-3 option flips
            let mut o = a.opts;
            for _ in 0..rng.range(2, 3) {
                o ^= 1 << rng.below(11);
            }
            CfgSpec::new(la, o)
        }
        3 => a, // pure reload
        _ => {
            let lb = Lay::ALL[rng.below(3)];
            random_spec(rng, lb)
        }
    };
    let mut before = vec![];
    let mut typed: Vec<String> = vec![];
    for _ in 0..rng.below(5) {
        let w = WORDS[rng.below(WORDS.len())].to_string();
        typed.push(w.clone());
        before.push(Act::Word(w, if rng.chance(1, 3) { Some(rng.below(4)) } else { None }));
    }
    for _ in 0..rng.below(3) {
        before.push(Act::EditAc(rng.below(ACS.len())));
        if rng.chance(1, 2) {
            before.push(Act::UpdateSame);
            let w = WORDS[rng.below(WORDS.len())].to_string();
            typed.push(w.clone());
            before.push(Act::Word(w, None));
        }
    }
    let mut after = vec![];
    for _ in 0..rng.range(1, 6) {
        // words that were already typed before the edit, as well as new ones
        let w = if !typed.is_empty() && rng.chance(1, 2) { typed[rng.below(typed.len())].clone() } else { WORDS[rng.below(WORDS.len())].to_string() };
        after.push((w, if rng.chance(1, 4) { Some(rng.below(3)) } else { None }));
    }
    Case { a, b, initial_ac: if rng.chance(2, 3) { Some(rng.below(ACS.len())) } else { None }, before, after }
}

fn write_ac(root: &Path, content: &str, mtime: SystemTime) {
    let p = autocorrect_file(root);
    std::fs::write(&p, content).unwrap();
    let f = std::fs::File::options().write(true).open(&p).unwrap();
    f.set_modified(mtime).unwrap();
}

/// Type `w` (keys exist in every layout: ASCII main block) and end the word; returns the renderings of every step.
fn type_word(s: &Sess, w: &str, end: Option<usize>, t: &mut Tally) -> Result<(Vec<String>, bool), Panic> {
    let mut outv = vec![];
    let mut last = None;
    let mut hl = 0u8;
    for c in w.chars() {
        t.calls += 1;
        let sg = s.key(key_of(c), 0, hl)?;
        hl = if sg.is_lonely() { 0 } else { sg.previously_selected_index().min(255) as u8 };
        outv.push(format!("{} ongoing={}", Rs::of(&sg).to_json(), s.ongoing()?));
        last = Some(sg);
    }
    let mut learned = false;
    t.calls += 1;
    match (end, last) {
        (Some(k), Some(sg)) if !sg.is_empty() => {
            let n = if sg.is_lonely() { 1 } else { sg.len() };
            let sel = if sg.is_lonely() { 0 } else { sg.previously_selected_index().min(n - 1) };
            let idx = (sel + k) % n;
            learned = idx != sel;
            s.commit(idx)?;
        }
        _ => s.finish()?,
    }
    outv.push(format!("ongoing={}", s.ongoing()?));
    Ok((outv, learned))
}

fn run_case(c: &Case, root: &Path, out: &mut Out, t: &mut Tally) {
    fresh_root(root);
    std::fs::write(selection_file(root), STORE).unwrap();
    let mut mtime = SystemTime::now() - Duration::from_secs(3600);
    if let Some(i) = c.initial_ac {
        write_ac(root, ACS[i], mtime);
    }
    let fail = |out: &mut Out, what: &str, p: &Panic| {
        out.violation("update-equals-new-context", format!("c11:panic@{}:{what}", p.loc), case_json(c), format!("{what} returns"), format!("panic at {}: {}", p.loc, p.msg));
    };
    let mut u = match Sess::new(c.a, root) {
        Ok(s) => s,
        Err(p) => return fail(out, "creating the context", &p),
    };
    let mut edited = false;
    let mut last_ac: Option<usize> = c.initial_ac;
    for a in &c.before {
        match a {
            Act::Word(w, e) => match type_word(&u, w, *e, t) {
                Ok((_, learned)) => {
                    if learned {
                        t.learning_commits_before += 1;
                    }
                }
                Err(p) => return fail(out, "typing before the update", &p),
            },
            Act::EditAc(i) => {
                mtime += Duration::from_secs(2);
                write_ac(root, ACS[*i], mtime);
                edited = true;
                last_ac = Some(*i);
            }
            Act::UpdateSame => {
                t.calls += 1;
                if let Err(p) = u.update(c.a) {
                    return fail(out, "update_engine (same configuration)", &p);
                }
            }
        }
    }
    // the update under test (the context is idle: every word was ended)
    t.calls += 1;
    if let Err(p) = u.update(c.b) {
        return fail(out, "update_engine", &p);
    }
    let f = match Sess::new(c.b, root) {
        Ok(s) => s,
        Err(p) => return fail(out, "creating the reference context", &p),
    };
    t.triples += 1;
    if c.a.lay != c.b.lay {
        t.layout_changed += 1;
        if c.a.lay.is_fixed() != c.b.lay.is_fixed() {
            t.method_changed += 1;
        }
    } else {
        t.option_flips_only += 1;
    }
    if edited {
        t.with_ac_edit += 1;
    }
    let typed_before: Vec<&String> = c.before.iter().filter_map(|a| if let Act::Word(w, _) = a { Some(w) } else { None }).collect();
    out.distinct(fnv_str(&[&c.a.short(), &c.b.short(), &c.before.len().to_string(), &c.after.iter().map(|(w, _)| w.as_str()).collect::<Vec<_>>().join(",")]));
    let user: serde_json::Map<String, Value> = last_ac.and_then(|i| serde_json::from_str::<Value>(ACS[i]).ok()).and_then(|v| v.as_object().cloned()).unwrap_or_default();
    for (w, e) in &c.after {
        if typed_before.contains(&w) && edited {
            t.retyped_pre_edit_words += 1;
        }
        let (ra, rb) = (type_word(&u, w, *e, t), type_word(&f, w, *e, t));
        match (ra, rb) {
            (Ok((a, _)), Ok((b, _))) => {
                t.continuation_events += a.len() as u64;
                if !c.b.lay.is_fixed() && c.b.has(O_PSUGG) && user.contains_key(crate::oracle::phon::split(w, false).1.as_str()) {
                    t.ac_affected_lists += 1;
                }
                if a != b {
                    let k = a.iter().zip(&b).position(|(x, y)| x != y).unwrap_or(0);
                    let kind = if edited && typed_before.contains(&w) {
                        "word-typed-before-autocorrect-edit"
                    } else if edited {
                        "after-autocorrect-edit"
                    } else if c.a.lay != c.b.lay {
                        "layout-change"
                    } else {
                        "option-change"
                    };
                    let mut cj = case_json(c);
                    cj["differs_at"] = json!({"word": w, "step": k});
                    out.violation("update-equals-new-context", format!("c11:differs:{kind}:{}->{}", c.a.lay.name(), c.b.lay.name()), cj,
                                  format!("{} (a context newly created with the new configuration)", b.get(k).cloned().unwrap_or_default()), format!("{} (the updated context)", a.get(k).cloned().unwrap_or_default()));
                    return;
                }
            }
            (ra, rb) => {
                let p = ra.err().or(rb.err()).unwrap();
                return fail(out, "typing after the update", &p);
            }
        }
    }
    // A second re-configuration of both contexts (suggestions switched on where the method has them) and the same words
    // once more: what the continuation left behind in the updated context (learned entries, memo, stale indices) must not
    // differ from what it left in the new one.
    let on = if c.b.lay.is_fixed() { O_FSUGG } else { O_PSUGG };
    let spec_c = c.b.with(on);
    t.calls += 2;
    let mut f = f;
    if let Err(p) = u.update(spec_c).and_then(|_| f.update(spec_c)) {
        return fail(out, "second update_engine", &p);
    }
    t.second_updates += 1;
    for (w, _) in &c.after {
        match (type_word(&u, w, None, t), type_word(&f, w, None, t)) {
            (Ok((a, _)), Ok((b, _))) => {
                t.continuation_events += a.len() as u64;
                if a != b {
                    let k = a.iter().zip(&b).position(|(x, y)| x != y).unwrap_or(0);
                    let mut cj = case_json(c);
                    cj["differs_at"] = json!({"word": w, "step": k, "after_second_update_to": spec_c.to_json()});
                    out.violation("update-equals-new-context", format!("c11:differs:after-second-update:{}->{}", c.a.lay.name(), c.b.lay.name()), cj,
                                  format!("{} (the context that was newly created with the first new configuration)", b.get(k).cloned().unwrap_or_default()), format!("{} (the context that was updated twice)", a.get(k).cloned().unwrap_or_default()));
                    return;
                }
            }
            (ra, rb) => {
                let p = ra.err().or(rb.err()).unwrap();
                return fail(out, "typing after the second update", &p);
            }
        }
    }
    if out.want_sample() && t.triples % 397 == 3 {
        out.sample(case_json(c));
    }
}

impl Prop for C11 {
    fn id(&self) -> &'static str {
        "C11"
    }
    fn rule(&self) -> String {
        "random triples (configuration before, history, configuration after): layouts phonetic / Probhat / synthetic with random options; the new configuration is a single option flip on the same layout (1/4), 2-3 flips (1/8), the same configuration (pure reload, 1/8) or a random configuration on a random layout (1/2); \
         before the update: 0-4 words typed and finished or committed (learning commits included), 0-2 rewrites of the user auto-correct file (6 documents incl. empty object and an empty-string value) with explicitly increasing mtime, optionally an update_engine with the same configuration and another word; \
         after the update: 1-6 words, half of them words already typed before the edit, typed in the updated context and in a context newly created with the new configuration over the same user files; every key's rendering, the flag and the commits are compared; then both contexts are re-configured once more (suggestions on) and the same words are typed again and compared. \
         distinct_nontrivial = distinct (configuration pair, history shape, continuation words) triples compared."
            .into()
    }
    fn assumptions(&self) -> Vec<String> {
        vec![
            "the property is an equivalence, so the reference is a newly created context".into(),
            "the user file is only edited (rewritten with a later mtime), never deleted, and mtimes never go backwards".into(),
        ]
    }
    fn shards(&self, tier: Tier) -> usize {
        tier.pick(16, 64)
    }
    fn minima(&self, _tier: Tier) -> Vec<(&'static str, u64)> {
        vec![
            ("triples_compared", 1_500), ("triples.layout_changed", 300), ("triples.method_changed", 200), ("triples.same_layout_option_flips", 300), ("triples.autocorrect_edited_before_update", 500),
            ("continuation_words_already_typed_before_the_edit", 300), ("continuation_lists_whose_first_candidate_comes_from_the_user_list", 150), ("learning_commits_before_update", 100), ("second_updates_compared", 1_000),
        ]
    }
    fn run_shard(&self, env: &Env, out: &mut Out) {
        let mut t = Tally::default();
        let mut rng = env.rng("c11");
        let root = env.root("c11");
        let n = env.tier.pick(160, 2400);
        for _ in 0..n {
            let c = gen_case(&mut rng);
            out.begin_case(|| case_json(&c));
            run_case(&c, &root, out, &mut t);
        }
        flush(&t, out);
    }
    fn replay(&self, env: &Env, case: &Value, out: &mut Out) {
        let (Some(a), Some(b)) = (case.get("cfg_before").and_then(CfgSpec::from_json), case.get("cfg_after").and_then(CfgSpec::from_json)) else { return };
        let ac_idx = |v: &Value| v.as_str().and_then(|s| ACS.iter().position(|x| *x == s));
        let parse_word = |v: &Value| -> Option<(String, Option<usize>)> {
            let w = v.get("type")?.as_str()?.to_string();
            let e = v.get("end")?;
            Some((w, if e.is_string() { None } else { e.get(1).and_then(|k| k.as_u64()).map(|k| k as usize) }))
        };
        let mut before = vec![];
        for x in case.get("before_update").and_then(|b| b.as_array()).cloned().unwrap_or_default() {
            if let Some((w, e)) = parse_word(&x) {
                before.push(Act::Word(w, e));
            } else if let Some(i) = x.get("rewrite_user_autocorrect").and_then(ac_idx) {
                before.push(Act::EditAc(i));
            } else if x.is_string() {
                before.push(Act::UpdateSame);
            }
        }
        let after: Vec<(String, Option<usize>)> = case.get("after_update").and_then(|b| b.as_array()).map(|a| a.iter().filter_map(parse_word).collect()).unwrap_or_default();
        let c = Case { a, b, initial_ac: case.get("initial_user_autocorrect").and_then(ac_idx), before, after };
        let mut t = Tally::default();
        run_case(&c, &env.root("c11"), out, &mut t);
        flush(&t, out);
    }
}
