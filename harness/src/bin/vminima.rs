//! prints every minimum of every property (quick and thorough) so that margins can be compared with evidence counters
use vharness::base::Tier;
fn main() {
    for p in vharness::prop::all() {
        for (tier, name) in [(Tier::Quick, "quick"), (Tier::Thorough, "thorough")] {
            for (k, v) in p.minima(tier) {
                println!("{} {} {} {}", p.id(), name, k, v);
            }
        }
    }
}
