//! debugging aid: vdbg <layout> <opts,comma> <text>   — types text, prints list and oracle classification
use vharness::base::*;
use vharness::oracle::phon::PhonOracle;
use vharness::phonjudge::classify;
fn main() {
    let a: Vec<String> = std::env::args().collect();
    install_panic_hook();
    let lay = Lay::from_name(&a[1]).unwrap();
    let mut opts = 0u16;
    for o in a[2].split(',') {
        if let Some(i) = OPT_NAMES.iter().position(|n| *n == o) {
            opts |= 1 << i;
        }
    }
    let spec = CfgSpec::new(lay, opts);
    let root = std::path::PathBuf::from("/dev/shm/vdbg");
    fresh_root(&root);
    if let Ok(ac) = std::env::var("VDBG_USER_AC") {
        std::fs::write(autocorrect_file(&root), ac).unwrap();
    }
    let sess = Sess::new(spec, &root).unwrap();
    let mut o = PhonOracle::new().unwrap();
    for text in &a[3..] {
        let s = sess.type_text_protocol(text).unwrap().unwrap();
        let rs = Rs::of(&s);
        println!("{text:?} -> {}", rs.to_json());
        if let Rs::Full { list, .. } = &rs {
            let v = classify(&mut o, &spec, text, list, None);
            println!("  word={:?} pre={:?} post={:?} translit={:?}", v.word, v.pre, v.post, v.translit);
            for (x, c) in list.iter().zip(&v.classes) {
                println!("  {x:?}: {c:?}");
            }
        }
        println!("  state={}", sess.state());
        sess.finish().unwrap();
    }
}
