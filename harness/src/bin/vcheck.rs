fn main() {
    let code = vharness::pool::main_entry(std::env::args().collect());
    std::process::exit(code);
}
