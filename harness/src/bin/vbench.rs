use std::time::Instant;
use vharness::base::*;
use vharness::oracle::phon::PhonOracle;
use vharness::phonjudge::classify;
fn main() {
    install_panic_hook();
    let spec = CfgSpec::new(Lay::Phonetic, O_PSUGG);
    let root = std::path::PathBuf::from("/dev/shm/vbench");
    fresh_root(&root);
    let sess = Sess::new(spec, &root).unwrap();
    let mut o = PhonOracle::new().unwrap();
    let mut keys: Vec<String> = o.ac.keys().filter(|k| k.chars().all(|c| c.is_ascii_alphanumeric())).cloned().collect();
    keys.sort();
    keys.truncate(600);
    let t0 = Instant::now();
    let mut lists = vec![];
    let mut nev = 0;
    for k in &keys {
        let s = sess.type_text_protocol(k).unwrap().unwrap();
        nev += k.len();
        lists.push(s.get_suggestions().to_vec());
        sess.finish().unwrap();
    }
    let t1 = Instant::now();
    println!("riti: {} texts {} events in {:?} ({:.1} us/event)", keys.len(), nev, t1 - t0, (t1 - t0).as_micros() as f64 / nev as f64);
    let mut ncand = 0;
    for (k, l) in keys.iter().zip(&lists) {
        let v = classify(&mut o, &spec, k, l, None);
        ncand += v.classes.len();
    }
    let t2 = Instant::now();
    println!("oracle: {} candidates in {:?} ({:.1} us/list)", ncand, t2 - t1, (t2 - t1).as_micros() as f64 / keys.len() as f64);
    let t3 = Instant::now();
    for k in &keys {
        let _ = regex::Regex::new(&o.rx.convert_regex(k)).unwrap();
    }
    println!("regex compile: {:.1} us/word", t3.elapsed().as_micros() as f64 / keys.len() as f64);
}
