use std::time::Instant;
fn main() {
    let rx = okkhor::parser::Parser::new_regex();
    for pat in ["ngkkh", "o", "a", "rri", "OI", "kkh", "ng", "x", "q", "e", "i", "u", "z", "t", "n", "y", "w", "ou", "oo", "ao"] {
        let mut lo = 1usize; let mut hi = 6000usize;
        let fails = |n: usize| { let s: String = pat.chars().cycle().take(n).collect(); regex::Regex::new(&rx.convert_regex(&s)).is_err() };
        if !fails(hi) { println!("{pat}: no failure up to {hi}"); continue; }
        while lo < hi { let mid = (lo + hi) / 2; if fails(mid) { hi = mid } else { lo = mid + 1 } }
        let t = Instant::now(); let s: String = pat.chars().cycle().take(lo).collect(); let _ = regex::Regex::new(&rx.convert_regex(&s));
        println!("{pat}: first failing length {lo} (compile attempt {:?})", t.elapsed());
    }
}
