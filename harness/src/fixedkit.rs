//! Shared pieces for the fixed-layout composition monitors (C12, C13, C14):
//! character classes written from the Unicode chart, symbol tables resolved
//! through the synthetic layout, history enumeration.

use crate::oracle::layout::LayoutOracle;
use riti::suggestion::Suggestion;

pub const HASANTA: char = '\u{09CD}';
pub const CHANDRA: char = '\u{0981}';
pub const ZWNJ: char = '\u{200C}';
pub const ZWJ: char = '\u{200D}';
pub const AU_MARK: char = '\u{09D7}';
pub const ZOFOLA: &str = "\u{09CD}\u{09AF}";
pub const ROFOLA: &str = "\u{09CD}\u{09B0}";
pub const REPH: &str = "\u{09B0}\u{09CD}";

/// Independent vowels every Bengali reader agrees on.
pub const VOWELS: &str = "অআইঈউঊঋএঐওঔ";
/// Dependent vowel signs, same order as VOWELS[1..].
pub const KARS: &str = "ািীুূৃেৈোৌ";
/// Rare Sanskrit vowels / signs: the statement does not say how the rules treat them.
pub const RARE: &str = "ঌৠৡৄৢৣ";

pub fn is_vowel_letter(c: char) -> bool {
    VOWELS.contains(c)
}
pub fn is_kar(c: char) -> bool {
    KARS.contains(c)
}
pub fn is_rare(c: char) -> bool {
    RARE.contains(c)
}
/// Consonant letters of the Bengali block (chart): ক..হ, ৎ, ড় ঢ় য়.
pub fn is_consonant(c: char) -> bool {
    matches!(c, '\u{0995}'..='\u{09A8}' | '\u{09AA}'..='\u{09B0}' | '\u{09B2}' | '\u{09B6}'..='\u{09B9}' | '\u{09CE}' | '\u{09DC}' | '\u{09DD}' | '\u{09DF}')
}
/// Assamese consonants: unspecified for the rules.
pub fn is_assamese(c: char) -> bool {
    matches!(c, '\u{09F0}' | '\u{09F1}')
}
/// Independent vowel matching a vowel sign (ৄ -> ৠ included: the statement says "the matching independent vowel").
pub fn independent_of(kar: char) -> Option<char> {
    if kar == '\u{09C4}' {
        return Some('\u{09E0}');
    }
    KARS.chars().position(|c| c == kar).map(|i| VOWELS.chars().nth(i + 1).unwrap())
}
pub fn is_bengali_digit(c: char) -> bool {
    ('\u{09E6}'..='\u{09EF}').contains(&c)
}

/// One key of the synthetic layout with the text it is assigned.
#[derive(Clone, Debug)]
pub struct Sym {
    pub val: String,
    pub code: u16,
    pub md: u8,
}

pub fn sym(o: &LayoutOracle, val: &str) -> Sym {
    let (code, md) = o.key_for_value(val).unwrap_or_else(|| panic!("layout {} has no key for {val:?}", o.lay.name()));
    Sym { val: val.to_string(), code, md }
}
pub fn syms(o: &LayoutOracle, vals: &[&str]) -> Vec<Sym> {
    vals.iter().map(|v| sym(o, v)).collect()
}

/// The composed text a fixed-layout context shows: the single string, or - when the candidate list rides along as a
/// bystander option - the first candidate, which is the composed text itself (C15 judges that).
pub fn shown(s: &Suggestion) -> String {
    if s.is_lonely() {
        s.get_lonely_suggestion().to_string()
    } else {
        s.get_suggestions().first().cloned().unwrap_or_default()
    }
}

/// Advance `idx` (digits in base `n`, most significant first, digit 0 pinned) to the next sequence.
/// Returns false after the last one.
pub fn next_seq(idx: &mut [usize], n: usize) -> bool {
    let mut p = idx.len();
    while p > 1 {
        p -= 1;
        idx[p] += 1;
        if idx[p] < n {
            return true;
        }
        idx[p] = 0;
    }
    false
}

pub fn esc(s: &str) -> String {
    s.chars().map(|c| if c.is_ascii_graphic() { c.to_string() } else { format!("\\u{{{:04X}}}", c as u32) }).collect()
}
