//! Session explorer: executes event histories on a real context, keeping the
//! front-end's view (what list is on screen, which index is highlighted) so that
//! generators can stay inside the API contract and monitors can judge each step.

use crate::base::*;
use riti::suggestion::Suggestion;
use serde_json::{json, Value};
use std::path::{Path, PathBuf};
use std::sync::atomic::{AtomicU64, Ordering};

/// What happened at one step.
pub struct Step {
    pub ev: Ev,
    /// Err = the call panicked
    pub result: Result<Option<Rs>, Panic>,
    /// the returned object itself (for read-out checks)
    pub sugg: Option<Suggestion>,
    pub cpu_ns: u64,
    pub ongoing_after: Option<bool>,
}

pub struct Exec {
    pub sess: Sess,
    pub root: PathBuf,
    /// list (or single string) currently "on screen": Some after a key/backspace that returned something non-empty,
    /// kept across commits, cleared by finish / ctrl-backspace / empty backspace / update / restart
    pub screen: Option<Rs>,
    /// index the front-end highlights (protocol selection byte for the next key)
    pub highlight: u8,
    /// shadow of the raw typed text in phonetic mode (pushes / pops as the contract describes)
    pub shadow: String,
    pub dead: bool,
    pub steps: usize,
    /// every concrete event applied since the context was created (for witnesses that need the whole life of a context)
    pub log: Vec<Ev>,
    pub keep_log: bool,
}

// ---- per-call CPU watchdog (see pool::worker watchdog thread)
pub static CALL_START_MS: AtomicU64 = AtomicU64::new(0);
pub static CALL_BUDGET_MS: AtomicU64 = AtomicU64::new(0);
static T0: std::sync::OnceLock<std::time::Instant> = std::sync::OnceLock::new();

pub fn now_ms() -> u64 {
    T0.get_or_init(std::time::Instant::now).elapsed().as_millis() as u64 + 1
}

/// Start a watchdog thread: if a single guarded call stays open longer than its budget (wall clock, checked
/// against the main thread's CPU clock before firing), the process exits with code 3.
pub fn start_call_watchdog() {
    let main_clock = unsafe {
        let mut cid: libc::clockid_t = 0;
        libc::pthread_getcpuclockid(libc::pthread_self(), &mut cid);
        cid
    };
    let _ = now_ms();
    std::thread::spawn(move || {
        let mut cpu_at_start: Option<(u64, u64)> = None; // (call start stamp, cpu ns at first sight)
        loop {
            std::thread::sleep(std::time::Duration::from_millis(250));
            let st = CALL_START_MS.load(Ordering::Relaxed);
            let budget = CALL_BUDGET_MS.load(Ordering::Relaxed);
            if st == 0 || budget == 0 {
                cpu_at_start = None;
                continue;
            }
            let mut ts = libc::timespec { tv_sec: 0, tv_nsec: 0 };
            unsafe {
                libc::clock_gettime(main_clock, &mut ts);
            }
            let cpu = ts.tv_sec as u64 * 1000 + ts.tv_nsec as u64 / 1_000_000;
            match cpu_at_start {
                Some((s, c0)) if s == st => {
                    // CPU milliseconds burnt by the main thread since we first saw this call
                    if cpu.saturating_sub(c0) > budget {
                        eprintln!("call watchdog: a single call burnt more than {budget} ms of CPU");
                        std::process::exit(crate::pool::EXIT_SLOW_CALL);
                    }
                }
                _ => cpu_at_start = Some((st, cpu)),
            }
        }
    });
}

pub fn set_call_budget_ms(ms: u64) {
    CALL_BUDGET_MS.store(ms, Ordering::Relaxed);
}

fn timed<T>(f: impl FnOnce() -> Result<T, Panic>) -> (Result<T, Panic>, u64) {
    CALL_START_MS.store(now_ms(), Ordering::Relaxed);
    let t0 = thread_cpu_ns();
    let r = f();
    let dt = thread_cpu_ns().saturating_sub(t0);
    CALL_START_MS.store(0, Ordering::Relaxed);
    (r, dt)
}

impl Exec {
    pub fn new(spec: CfgSpec, root: &Path) -> Result<Exec, Panic> {
        let sess = Sess::new(spec, root)?;
        Ok(Exec { sess, root: root.to_path_buf(), screen: None, highlight: 0, shadow: String::new(), dead: false, steps: 0, log: vec![], keep_log: false })
    }

    /// Is `ev` inside the API contract in the current front-end state?
    pub fn in_contract(&self, ev: &Ev) -> bool {
        match ev {
            Ev::Commit(i) => match &self.screen {
                Some(rs) => *i < rs.commit_len(),
                None => false,
            },
            Ev::Update(_) => !self.sess.ongoing().unwrap_or(true),
            Ev::Key(k, _, _) => keydef(*k).is_some(),
            _ => true,
        }
    }

    fn see(&mut self, s: &Suggestion) -> Rs {
        let rs = Rs::of(s);
        if rs.is_empty() {
            self.screen = None;
            self.highlight = 0;
        } else {
            self.highlight = rs.sel().unwrap_or(0).min(255) as u8;
            self.screen = Some(rs.clone());
        }
        rs
    }

    /// Execute one event (must be in contract). Every riti call is guarded and timed.
    pub fn apply(&mut self, ev: &Ev) -> Step {
        self.steps += 1;
        if self.keep_log {
            self.log.push(ev.clone());
        }
        let mut sugg = None;
        let (result, cpu_ns): (Result<Option<Rs>, Panic>, u64) = match ev {
            Ev::Key(k, m, s) => {
                let (r, dt) = timed(|| self.sess.key(*k, *m, *s));
                match r {
                    Ok(sg) => {
                        if let Some(c) = char_for_key(*k) {
                            if !self.sess.spec.lay.is_fixed() {
                                self.shadow.push(c);
                            }
                        }
                        let rs = self.see(&sg);
                        sugg = Some(sg);
                        (Ok(Some(rs)), dt)
                    }
                    Err(p) => (Err(p), dt),
                }
            }
            Ev::Bs | Ev::CtrlBs => {
                let ctrl = matches!(ev, Ev::CtrlBs);
                let (r, dt) = timed(|| self.sess.bs(ctrl));
                match r {
                    Ok(sg) => {
                        if ctrl {
                            self.shadow.clear();
                        } else {
                            self.shadow.pop();
                        }
                        let rs = self.see(&sg);
                        sugg = Some(sg);
                        (Ok(Some(rs)), dt)
                    }
                    Err(p) => (Err(p), dt),
                }
            }
            Ev::Commit(i) => {
                let (r, dt) = timed(|| self.sess.commit(*i));
                self.shadow.clear();
                (r.map(|_| None), dt)
            }
            Ev::Finish => {
                let (r, dt) = timed(|| self.sess.finish());
                self.shadow.clear();
                self.screen = None;
                self.highlight = 0;
                (r.map(|_| None), dt)
            }
            Ev::Update(spec) => {
                let spec = *spec;
                let (r, dt) = timed(|| self.sess.update(spec));
                self.screen = None;
                self.highlight = 0;
                self.shadow.clear();
                (r.map(|_| None), dt)
            }
            Ev::NewCtx => {
                let (r, dt) = timed(|| self.sess.restart());
                self.screen = None;
                self.highlight = 0;
                self.shadow.clear();
                (r.map(|_| None), dt)
            }
        };
        if result.is_err() {
            self.dead = true;
        }
        let ongoing_after = if self.dead { None } else { self.sess.ongoing().ok() };
        Step { ev: ev.clone(), result, sugg, cpu_ns, ongoing_after }
    }
}

/// JSON of a history for witnesses.
pub fn trace_json(spec: &CfgSpec, files: &UserFiles, evs: &[Ev]) -> Value {
    json!({"cfg": spec.to_json(), "user_files": files.to_json(), "events": evs_to_json(evs)})
}

#[derive(Clone, Debug, Default, PartialEq, Eq)]
pub struct UserFiles {
    pub selections: Option<String>,
    pub autocorrect: Option<String>,
}
impl UserFiles {
    pub fn to_json(&self) -> Value {
        json!({"phonetic-candidate-selection.json": self.selections, "autocorrect.json": self.autocorrect})
    }
    pub fn from_json(v: &Value) -> UserFiles {
        UserFiles {
            selections: v.get("phonetic-candidate-selection.json").and_then(|s| s.as_str()).map(|s| s.to_string()),
            autocorrect: v.get("autocorrect.json").and_then(|s| s.as_str()).map(|s| s.to_string()),
        }
    }
    pub fn install(&self, root: &Path) {
        fresh_root(root);
        if let Some(s) = &self.selections {
            std::fs::write(selection_file(root), s).unwrap();
        }
        if let Some(s) = &self.autocorrect {
            std::fs::write(autocorrect_file(root), s).unwrap();
        }
    }
}

/// Pairwise-covering set of option masks over the 11 booleans (plus the corners).
pub fn pairwise_opts() -> Vec<u16> {
    // greedy construction, deterministic
    let n = 11;
    let mut need: std::collections::HashSet<(usize, usize, bool, bool)> = std::collections::HashSet::new();
    for i in 0..n {
        for j in (i + 1)..n {
            for a in [false, true] {
                for b in [false, true] {
                    need.insert((i, j, a, b));
                }
            }
        }
    }
    let mut out: Vec<u16> = vec![0, O_ALL, O_SQ];
    let cover = |m: u16, need: &mut std::collections::HashSet<(usize, usize, bool, bool)>| {
        for i in 0..n {
            for j in (i + 1)..n {
                need.remove(&(i, j, m & (1 << i) != 0, m & (1 << j) != 0));
            }
        }
    };
    for m in out.clone() {
        cover(m, &mut need);
    }
    let mut r = Rng::new(0xBEEF);
    while !need.is_empty() {
        let mut best = (0usize, 0u16);
        for _ in 0..200 {
            let m = (r.next() & O_ALL as u64) as u16;
            let mut c = 0;
            for i in 0..n {
                for j in (i + 1)..n {
                    if need.contains(&(i, j, m & (1 << i) != 0, m & (1 << j) != 0)) {
                        c += 1;
                    }
                }
            }
            if c > best.0 {
                best = (c, m);
            }
        }
        if best.0 == 0 {
            break;
        }
        cover(best.1, &mut need);
        out.push(best.1);
    }
    out
}
