//! vharness: runtime-monitoring harness for OpenBangla/riti (see /verif/DESIGN.md).
//!
//! Everything here drives the *real* library through its public boundary
//! (`RitiContext`, `Suggestion`, the `extern "C"` symbols) and judges what it
//! observes with independent oracles.

pub mod base;
pub mod explore;
pub mod fixedkit;
pub mod keytab;
pub mod oracle;
pub mod out;
pub mod phonjudge;
pub mod phonkit;
pub mod pool;
pub mod prop;
pub mod systrace;

pub use base::*;
pub use out::*;
