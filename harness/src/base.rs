//! Configuration builder, key tables, PRNG, event/trace format, session runner.

use crate::keytab::{KeyDef, KEYS};
use riti::config::Config;
use riti::context::RitiContext;
use riti::suggestion::Suggestion;
use serde_json::{json, Value};
use std::ffi::CString;
use std::os::raw::c_char;
use std::panic::{catch_unwind, AssertUnwindSafe};
use std::path::{Path, PathBuf};
use std::sync::Mutex;

pub const REPO: &str = "/repo";
pub const VERIF: &str = "/verif";

// ---------------------------------------------------------------------------
// The crate-private config setters are reachable through the C symbols, which
// link from the rlib.
#[allow(improper_ctypes)]
extern "C" {
    fn riti_config_new() -> *mut Config;
    fn riti_config_free(p: *mut Config);
    fn riti_config_set_layout_file(p: *mut Config, path: *const c_char) -> bool;
    fn riti_config_set_database_dir(p: *mut Config, path: *const c_char) -> bool;
    fn riti_config_set_suggestion_include_english(p: *mut Config, o: bool);
    fn riti_config_set_phonetic_suggestion(p: *mut Config, o: bool);
}

#[derive(Clone, Copy, PartialEq, Eq, Hash, Debug, PartialOrd, Ord)]
pub enum Lay {
    Phonetic,
    Probhat,
    Verif,
    /// a file with the same name as the bundled Probhat.json, in another directory, with some keys exchanged
    Twin,
    /// the same twin file named by a relative path ("Probhat.json": a file of that name also exists in the data directory);
    /// worker processes run with the twin's directory as working directory
    Relative,
}

impl Lay {
    pub fn path(self) -> String {
        match self {
            Lay::Phonetic => "avro_phonetic".to_string(),
            Lay::Probhat => format!("{REPO}/data/Probhat.json"),
            Lay::Verif => format!("{VERIF}/layouts/verif.json"),
            Lay::Twin => format!("{VERIF}/layouts/twin/Probhat.json"),
            Lay::Relative => "Probhat.json".to_string(),
        }
    }
    pub fn name(self) -> &'static str {
        match self {
            Lay::Phonetic => "phonetic",
            Lay::Probhat => "probhat",
            Lay::Verif => "verif",
            Lay::Twin => "twin",
            Lay::Relative => "relative",
        }
    }
    pub fn from_name(s: &str) -> Option<Lay> {
        match s {
            "phonetic" => Some(Lay::Phonetic),
            "probhat" => Some(Lay::Probhat),
            "verif" => Some(Lay::Verif),
            "twin" => Some(Lay::Twin),
            "relative" => Some(Lay::Relative),
            _ => None,
        }
    }
    pub fn is_fixed(self) -> bool {
        self != Lay::Phonetic
    }
    pub const ALL: [Lay; 3] = [Lay::Phonetic, Lay::Probhat, Lay::Verif];
}

pub const O_ENG: u16 = 1 << 0;
pub const O_PSUGG: u16 = 1 << 1;
pub const O_FSUGG: u16 = 1 << 2;
pub const O_VOWEL: u16 = 1 << 3;
pub const O_CHANDRA: u16 = 1 << 4;
pub const O_TKAR: u16 = 1 << 5;
pub const O_REPH: u16 = 1 << 6;
pub const O_NUMPAD: u16 = 1 << 7;
pub const O_KARORDER: u16 = 1 << 8;
pub const O_ANSI: u16 = 1 << 9;
pub const O_SQ: u16 = 1 << 10;
pub const O_ALL: u16 = (1 << 11) - 1;
/// Options that only the fixed-layout method reads: bystanders for the phonetic method (they must not matter there).
pub const O_FIXED_ONLY: u16 = O_FSUGG | O_VOWEL | O_CHANDRA | O_TKAR | O_REPH | O_NUMPAD | O_KARORDER;
pub const OPT_NAMES: [&str; 11] = [
    "eng", "psugg", "fsugg", "vowel", "chandra", "tkar", "reph", "numpad", "karorder", "ansi", "sq",
];

#[derive(Clone, Copy, PartialEq, Eq, Hash, Debug)]
pub struct CfgSpec {
    pub lay: Lay,
    pub opts: u16,
    /// use /verif/data_small instead of /repo/data (Miri-sized runs)
    pub small: bool,
}

impl CfgSpec {
    pub fn new(lay: Lay, opts: u16) -> Self {
        CfgSpec { lay, opts, small: false }
    }
    pub fn has(&self, o: u16) -> bool {
        self.opts & o != 0
    }
    pub fn with(&self, o: u16) -> Self {
        CfgSpec { opts: self.opts | o, ..*self }
    }
    pub fn without(&self, o: u16) -> Self {
        CfgSpec { opts: self.opts & !o, ..*self }
    }
    /// Does this configuration return list-style suggestions?
    pub fn lists(&self) -> bool {
        if self.lay.is_fixed() {
            self.has(O_FSUGG)
        } else {
            self.has(O_PSUGG)
        }
    }
    pub fn english(&self) -> bool {
        self.has(O_ENG) && !self.has(O_ANSI)
    }
    pub fn to_json(&self) -> Value {
        let names: Vec<&str> = (0..11).filter(|i| self.opts & (1 << i) != 0).map(|i| OPT_NAMES[i]).collect();
        json!({"layout": self.lay.name(), "opts": names, "small": self.small})
    }
    pub fn from_json(v: &Value) -> Option<Self> {
        let lay = Lay::from_name(v.get("layout")?.as_str()?)?;
        let mut opts = 0u16;
        for o in v.get("opts")?.as_array()? {
            let i = OPT_NAMES.iter().position(|n| Some(*n) == o.as_str())?;
            opts |= 1 << i;
        }
        Some(CfgSpec { lay, opts, small: v.get("small").and_then(|b| b.as_bool()).unwrap_or(false) })
    }
    pub fn short(&self) -> String {
        let names: Vec<&str> = (0..11).filter(|i| self.opts & (1 << i) != 0).map(|i| OPT_NAMES[i]).collect();
        format!("{}[{}]", self.lay.name(), names.join(","))
    }

    /// Build a real `Config`. `user_root` becomes XDG_DATA_HOME for this config
    /// (riti reads the variable when the config is created and appends
    /// `/openbangla-keyboard`).
    pub fn build(&self, user_root: &Path) -> Config {
        if HOME_ENV.load(std::sync::atomic::Ordering::Relaxed) {
            // the fallback of riti's user-directory rule: no XDG_DATA_HOME, $HOME/.local/share instead
            // (`user_root` must then be <home>/.local/share)
            std::env::remove_var("XDG_DATA_HOME");
            std::env::set_var("HOME", user_root.parent().and_then(|p| p.parent()).expect("root of the form <home>/.local/share"));
        } else {
            std::env::set_var("XDG_DATA_HOME", user_root);
        }
        // XDG_DATA_HOME names the directory and HOME is not set at all (a service started with a minimal environment)
        let home_saved = if NO_HOME_ENV.load(std::sync::atomic::Ordering::Relaxed) {
            let h = std::env::var_os("HOME");
            std::env::remove_var("HOME");
            h
        } else {
            None
        };
        unsafe {
            let p = riti_config_new();
            if let Some(h) = home_saved {
                std::env::set_var("HOME", h);
            }
            let l = CString::new(self.lay.path()).unwrap();
            assert!(riti_config_set_layout_file(p, l.as_ptr()), "layout path rejected: {}", self.lay.path());
            let dd = if self.small { format!("{VERIF}/data_small") } else { format!("{REPO}/data") };
            let d = CString::new(dd).unwrap();
            assert!(riti_config_set_database_dir(p, d.as_ptr()));
            riti_config_set_suggestion_include_english(p, self.has(O_ENG));
            riti_config_set_phonetic_suggestion(p, self.has(O_PSUGG));

            let c = &mut *p;
            c.set_fixed_suggestion(self.has(O_FSUGG));
            c.set_fixed_automatic_vowel(self.has(O_VOWEL));
            c.set_fixed_automatic_chandra(self.has(O_CHANDRA));
            c.set_fixed_traditional_kar(self.has(O_TKAR));
            c.set_fixed_old_reph(self.has(O_REPH));
            c.set_fixed_numpad(self.has(O_NUMPAD));
            c.set_fixed_old_kar_order(self.has(O_KARORDER));
            c.set_ansi_encoding(self.has(O_ANSI));
            c.set_smart_quote(self.has(O_SQ));
            // The ANSI and English options interact, and a front-end may apply them in either order: on alternate
            // builds the English option is applied once more after the ANSI option (idempotent for a plain option record).
            static FLIP: std::sync::atomic::AtomicUsize = std::sync::atomic::AtomicUsize::new(0);
            if FLIP.fetch_add(1, std::sync::atomic::Ordering::Relaxed) % 2 == 1 {
                riti_config_set_suggestion_include_english(p, self.has(O_ENG));
            }
            let out = (*p).clone();
            riti_config_free(p);
            out
        }
    }

    /// Apply one option (bit index 0..11) of this specification to an existing configuration object through its setter.
    fn set_bit(&self, cfg: &mut Config, bit: usize) {
        let on = self.opts & (1 << bit) != 0;
        unsafe {
            match 1u16 << bit {
                O_ENG => riti_config_set_suggestion_include_english(cfg as *mut Config, on),
                O_PSUGG => riti_config_set_phonetic_suggestion(cfg as *mut Config, on),
                O_FSUGG => cfg.set_fixed_suggestion(on),
                O_VOWEL => cfg.set_fixed_automatic_vowel(on),
                O_CHANDRA => cfg.set_fixed_automatic_chandra(on),
                O_TKAR => cfg.set_fixed_traditional_kar(on),
                O_REPH => cfg.set_fixed_old_reph(on),
                O_NUMPAD => cfg.set_fixed_numpad(on),
                O_KARORDER => cfg.set_fixed_old_kar_order(on),
                O_ANSI => cfg.set_ansi_encoding(on),
                O_SQ => cfg.set_smart_quote(on),
                _ => {}
            }
        }
    }

    /// Bring an existing configuration object (currently describing `old`) to this specification the way a front-end
    /// that keeps one object does: `mode` 1 = every setter, options in ascending order (English before ANSI); 2 = every
    /// setter, descending order; 3 = only the setters of what changed, ascending; 4 = only what changed, descending.
    pub fn apply(&self, cfg: &mut Config, old: &CfgSpec, mode: u8) {
        let all = mode == 1 || mode == 2;
        if all || old.lay != self.lay {
            let l = CString::new(self.lay.path()).unwrap();
            unsafe {
                assert!(riti_config_set_layout_file(cfg as *mut Config, l.as_ptr()), "layout path rejected: {}", self.lay.path());
            }
        }
        let mut bits: Vec<usize> = (0..11).filter(|b| all || (old.opts ^ self.opts) & (1 << b) != 0).collect();
        if mode == 2 || mode == 4 {
            bits.reverse();
        }
        for b in bits {
            self.set_bit(cfg, b);
        }
    }
}

/// When set, configurations are built with XDG_DATA_HOME unset and HOME pointing two levels above the user root.
/// Working directory of every process that drives riti (so that `Lay::Relative` names the twin layout).
pub fn enter_working_directory() {
    std::env::set_current_dir(format!("{VERIF}/layouts/twin")).expect("working directory");
}

pub static HOME_ENV: std::sync::atomic::AtomicBool = std::sync::atomic::AtomicBool::new(false);
/// When set, HOME is removed from the environment while a configuration is created (XDG_DATA_HOME is set as usual).
pub static NO_HOME_ENV: std::sync::atomic::AtomicBool = std::sync::atomic::AtomicBool::new(false);

pub fn user_dir(root: &Path) -> PathBuf {
    root.join("openbangla-keyboard")
}
pub fn selection_file(root: &Path) -> PathBuf {
    user_dir(root).join("phonetic-candidate-selection.json")
}
pub fn autocorrect_file(root: &Path) -> PathBuf {
    user_dir(root).join("autocorrect.json")
}
/// (Re)create an empty user-data root.
pub fn fresh_root(root: &Path) {
    let _ = std::fs::remove_dir_all(root);
    std::fs::create_dir_all(user_dir(root)).expect("create user dir");
}

// ---------------------------------------------------------------------------
// Keys

pub fn keys() -> &'static [KeyDef] {
    KEYS
}

/// Key code for an ASCII character (main block, never the number pad).
pub fn key_for_char(c: char) -> Option<u16> {
    KEYS.iter().find(|k| !k.numpad && k.ch == Some(c)).map(|k| k.code)
}
pub fn kc(c: char) -> u16 {
    key_for_char(c).unwrap_or_else(|| panic!("no key for {c:?}"))
}
pub fn char_for_key(code: u16) -> Option<char> {
    KEYS.iter().find(|k| k.code == code).and_then(|k| k.ch)
}
pub fn keydef(code: u16) -> Option<&'static KeyDef> {
    KEYS.iter().find(|k| k.code == code)
}

/// Compare the embedded table with include/riti.h of the tree under test.
pub fn check_header() -> Result<(), String> {
    let h = std::fs::read_to_string(format!("{REPO}/include/riti.h")).map_err(|e| format!("cannot read riti.h: {e}"))?;
    let mut seen = 0;
    for line in h.lines() {
        if let Some(rest) = line.strip_prefix("#define VC_") {
            let mut it = rest.split_whitespace();
            let (Some(n), Some(v)) = (it.next(), it.next()) else { continue };
            let code: u16 = v.parse().map_err(|_| format!("bad value for VC_{n}"))?;
            let name = format!("VC_{n}");
            match KEYS.iter().find(|k| k.name == name) {
                Some(k) if k.code == code => seen += 1,
                Some(k) => return Err(format!("{name}: header says {code}, harness table says {}", k.code)),
                None => return Err(format!("{name} is in riti.h but not in the harness table")),
            }
        }
    }
    if seen != KEYS.len() {
        return Err(format!("riti.h defines {seen} key codes, harness table has {}", KEYS.len()));
    }
    Ok(())
}

// ---------------------------------------------------------------------------
// PRNG (xorshift64*), deterministic per (seed, property, shard)

#[derive(Clone)]
pub struct Rng(u64);

impl Rng {
    pub fn new(seed: u64) -> Self {
        let mut r = Rng(seed ^ 0x9E37_79B9_7F4A_7C15);
        if r.0 == 0 {
            r.0 = 0xDEAD_BEEF_CAFE_F00D;
        }
        for _ in 0..4 {
            r.next();
        }
        r
    }
    pub fn derive(seed: u64, tag: &str, shard: usize) -> Self {
        let mut h = seed.wrapping_mul(0x100_0000_01B3) ^ 0xcbf2_9ce4_8422_2325;
        for b in tag.bytes() {
            h = (h ^ b as u64).wrapping_mul(0x100_0000_01B3);
        }
        h = (h ^ (shard as u64).wrapping_add(0x51_7C_C1_B7)).wrapping_mul(0x100_0000_01B3);
        Rng::new(h)
    }
    pub fn next(&mut self) -> u64 {
        let mut x = self.0;
        x ^= x >> 12;
        x ^= x << 25;
        x ^= x >> 27;
        self.0 = x;
        x.wrapping_mul(0x2545_F491_4F6C_DD1D)
    }
    pub fn below(&mut self, n: usize) -> usize {
        if n == 0 {
            0
        } else {
            (self.next() >> 11) as usize % n
        }
    }
    pub fn range(&mut self, lo: usize, hi_incl: usize) -> usize {
        lo + self.below(hi_incl - lo + 1)
    }
    pub fn chance(&mut self, num: usize, den: usize) -> bool {
        self.below(den) < num
    }
    pub fn pick<'a, T>(&mut self, v: &'a [T]) -> &'a T {
        &v[self.below(v.len())]
    }
    pub fn state(&self) -> u64 {
        self.0
    }
}

pub fn fnv(bytes: &[u8]) -> u64 {
    let mut h = 0xcbf2_9ce4_8422_2325u64;
    for b in bytes {
        h = (h ^ *b as u64).wrapping_mul(0x100_0000_01B3);
    }
    h
}
pub fn fnv_str(parts: &[&str]) -> u64 {
    let mut h = 0xcbf2_9ce4_8422_2325u64;
    for p in parts {
        for b in p.bytes() {
            h = (h ^ b as u64).wrapping_mul(0x100_0000_01B3);
        }
        h = (h ^ 0xff).wrapping_mul(0x100_0000_01B3);
    }
    h
}

// ---------------------------------------------------------------------------
// Panic capture

static LAST_PANIC: Mutex<Option<Panic>> = Mutex::new(None);

#[derive(Clone, Debug, PartialEq, Eq)]
pub struct Panic {
    /// `file:line` with the path made relative (`src/...` for riti, `crate-x.y.z/src/...` for dependencies)
    pub loc: String,
    pub msg: String,
}

fn shorten_path(p: &str) -> String {
    if let Some(rest) = p.strip_prefix(&format!("{REPO}/")) {
        return rest.to_string();
    }
    if let Some(i) = p.find("/registry/src/") {
        let rest = &p[i + "/registry/src/".len()..];
        if let Some(j) = rest.find('/') {
            return rest[j + 1..].to_string();
        }
    }
    if let Some(i) = p.find("/library/") {
        return p[i + 1..].to_string();
    }
    p.to_string()
}

/// Install a panic hook that records the location and prints nothing.
pub fn install_panic_hook() {
    std::panic::set_hook(Box::new(|info| {
        let loc = info
            .location()
            .map(|l| format!("{}:{}", shorten_path(l.file()), l.line()))
            .unwrap_or_else(|| "?".to_string());
        let msg = if let Some(s) = info.payload().downcast_ref::<&str>() {
            s.to_string()
        } else if let Some(s) = info.payload().downcast_ref::<String>() {
            s.clone()
        } else {
            "?".to_string()
        };
        let msg: String = msg.chars().take(160).collect();
        if let Ok(mut g) = LAST_PANIC.lock() {
            *g = Some(Panic { loc, msg });
        }
    }));
}

/// Wall-clock stamp (ms since the first use, never 0) of the guarded call in progress, 0 when none is.
pub static GUARDED_CALL_START_MS: std::sync::atomic::AtomicU64 = std::sync::atomic::AtomicU64::new(0);

/// Line printed on stdout when the blocked-call watchdog ends the process (set by the replay entry point).
pub static BLOCKED_EXIT_LINE: std::sync::OnceLock<String> = std::sync::OnceLock::new();

pub fn wall_ms() -> u64 {
    static T0: std::sync::OnceLock<std::time::Instant> = std::sync::OnceLock::new();
    T0.get_or_init(std::time::Instant::now).elapsed().as_millis() as u64 + 1
}

/// Watchdog against calls that *block*: a library call that neither returns nor burns CPU (it sleeps, waits for a lock or
/// retries with pauses) is a hang that the CPU budget of C01 cannot see. The thread samples the state of the main thread
/// four times a second; when one guarded call has been open for 45 s, the main thread was asleep (state S in
/// /proc/self/task/<tid>/stat - not runnable, not in disk wait) in at least 90 % of the samples (a retry loop with short
/// pauses looks like that as well) and burnt less than 20 s of CPU, the process exits with `EXIT_BLOCKED_CALL`. A machine that is merely overloaded shows the thread as runnable (R).
pub fn start_blocked_call_watchdog(exit_code: i32) {
    let tid = unsafe { libc::syscall(libc::SYS_gettid) } as i64;
    let main_clock = unsafe {
        let mut cid: libc::clockid_t = 0;
        libc::pthread_getcpuclockid(libc::pthread_self(), &mut cid);
        cid
    };
    let _ = wall_ms();
    std::thread::spawn(move || {
        // (stamp of the call, wall ms at first sight, cpu ms at first sight, samples, samples asleep)
        let mut cur: Option<(u64, u64, u64, u64, u64)> = None;
        loop {
            std::thread::sleep(std::time::Duration::from_millis(250));
            let st = GUARDED_CALL_START_MS.load(std::sync::atomic::Ordering::Relaxed);
            if st == 0 {
                cur = None;
                continue;
            }
            let mut ts = libc::timespec { tv_sec: 0, tv_nsec: 0 };
            unsafe {
                libc::clock_gettime(main_clock, &mut ts);
            }
            let cpu = ts.tv_sec as u64 * 1000 + ts.tv_nsec as u64 / 1_000_000;
            let asleep = std::fs::read_to_string(format!("/proc/self/task/{tid}/stat"))
                .ok()
                .and_then(|s| s.rsplit_once(") ").map(|(_, r)| r.starts_with('S')))
                .unwrap_or(false);
            match &mut cur {
                Some((s, w0, c0, n, ns)) if *s == st => {
                    *n += 1;
                    if asleep {
                        *ns += 1;
                    }
                    if wall_ms().saturating_sub(*w0) > 45_000 && *ns * 10 >= *n * 9 && cpu.saturating_sub(*c0) < 20_000 {
                        eprintln!("call watchdog: a single call has been blocked (asleep, not runnable) for 45 s");
                        if let Some(line) = BLOCKED_EXIT_LINE.get() {
                            println!("{line}");
                            println!("  clause: time-budget   signature: time-budget:blocked");
                            println!("  observed: a single call stayed blocked (asleep, not runnable, no CPU used) for 45 s");
                        }
                        std::process::exit(exit_code);
                    }
                }
                _ => cur = Some((st, wall_ms(), cpu, 0, 0)),
            }
        }
    });
}

/// Run `f`, turning a panic into `Err(Panic)`.
pub fn guard<T>(f: impl FnOnce() -> T) -> Result<T, Panic> {
    // (nested guards: the outermost one owns the stamp)
    let outer = GUARDED_CALL_START_MS.load(std::sync::atomic::Ordering::Relaxed);
    if outer == 0 {
        GUARDED_CALL_START_MS.store(wall_ms(), std::sync::atomic::Ordering::Relaxed);
    }
    let r = guard_inner(f);
    if outer == 0 {
        GUARDED_CALL_START_MS.store(0, std::sync::atomic::Ordering::Relaxed);
    }
    r
}

/// `guard` without the call stamp: for harness-level closures that legitimately wait (a whole shard, child processes).
pub fn guard_inner<T>(f: impl FnOnce() -> T) -> Result<T, Panic> {
    match catch_unwind(AssertUnwindSafe(f)) {
        Ok(v) => Ok(v),
        Err(_) => {
            let p = LAST_PANIC.lock().ok().and_then(|mut g| g.take());
            Err(p.unwrap_or(Panic { loc: "?".into(), msg: "?".into() }))
        }
    }
}

// ---------------------------------------------------------------------------
// CPU clock of the calling thread

pub fn thread_cpu_ns() -> u64 {
    let mut ts = libc::timespec { tv_sec: 0, tv_nsec: 0 };
    unsafe {
        libc::clock_gettime(libc::CLOCK_THREAD_CPUTIME_ID, &mut ts);
    }
    ts.tv_sec as u64 * 1_000_000_000 + ts.tv_nsec as u64
}

// ---------------------------------------------------------------------------
// Rendered suggestion

#[derive(Clone, PartialEq, Eq, Hash, Debug)]
pub enum Rs {
    Single(String),
    Full { aux: String, list: Vec<String>, sel: usize },
}

impl Rs {
    pub fn of(s: &Suggestion) -> Rs {
        if s.is_lonely() {
            Rs::Single(s.get_lonely_suggestion().to_string())
        } else {
            Rs::Full {
                aux: s.get_auxiliary_text().to_string(),
                list: s.get_suggestions().to_vec(),
                sel: s.previously_selected_index(),
            }
        }
    }
    pub fn is_empty(&self) -> bool {
        match self {
            Rs::Single(s) => s.is_empty(),
            Rs::Full { list, .. } => list.is_empty(),
        }
    }
    pub fn list(&self) -> Option<&[String]> {
        match self {
            Rs::Full { list, .. } => Some(list),
            _ => None,
        }
    }
    pub fn sel(&self) -> Option<usize> {
        match self {
            Rs::Full { sel, .. } => Some(*sel),
            _ => None,
        }
    }
    pub fn single(&self) -> Option<&str> {
        match self {
            Rs::Single(s) => Some(s),
            _ => None,
        }
    }
    /// Number of indices a front-end may commit.
    pub fn commit_len(&self) -> usize {
        match self {
            Rs::Single(s) => usize::from(!s.is_empty()),
            Rs::Full { list, .. } => list.len(),
        }
    }
    pub fn to_json(&self) -> Value {
        match self {
            Rs::Single(s) => json!({"single": s}),
            Rs::Full { aux, list, sel } => json!({"aux": aux, "list": list, "sel": sel}),
        }
    }
    pub fn hash(&self) -> u64 {
        match self {
            Rs::Single(s) => fnv_str(&["S", s]),
            Rs::Full { aux, list, sel } => {
                let mut parts: Vec<&str> = vec!["F", aux];
                let sels = sel.to_string();
                parts.push(&sels);
                for l in list {
                    parts.push(l);
                }
                fnv_str(&parts)
            }
        }
    }
}

// ---------------------------------------------------------------------------
// Events

#[derive(Clone, PartialEq, Eq, Hash, Debug)]
pub enum Ev {
    Key(u16, u8, u8),
    Bs,
    CtrlBs,
    Commit(usize),
    Finish,
    Update(CfgSpec),
    /// drop the context and create a new one over the same user directory
    NewCtx,
}

impl Ev {
    pub fn to_json(&self) -> Value {
        match self {
            Ev::Key(k, m, s) => {
                let name = keydef(*k).map(|d| d.name.to_string()).unwrap_or_else(|| format!("0x{k:04X}"));
                json!(["key", name, k, m, s])
            }
            Ev::Bs => json!("backspace"),
            Ev::CtrlBs => json!("ctrl-backspace"),
            Ev::Commit(i) => json!(["commit", i]),
            Ev::Finish => json!("finish"),
            Ev::Update(c) => json!(["update_engine", c.to_json()]),
            Ev::NewCtx => json!("new-context"),
        }
    }
    pub fn from_json(v: &Value) -> Option<Ev> {
        if let Some(s) = v.as_str() {
            return match s {
                "backspace" => Some(Ev::Bs),
                "ctrl-backspace" => Some(Ev::CtrlBs),
                "finish" => Some(Ev::Finish),
                "new-context" => Some(Ev::NewCtx),
                _ => None,
            };
        }
        let a = v.as_array()?;
        match a.first()?.as_str()? {
            "key" => Some(Ev::Key(a.get(2)?.as_u64()? as u16, a.get(3)?.as_u64()? as u8, a.get(4)?.as_u64()? as u8)),
            "commit" => Some(Ev::Commit(a.get(1)?.as_u64()? as usize)),
            "update_engine" => Some(Ev::Update(CfgSpec::from_json(a.get(1)?)?)),
            _ => None,
        }
    }
}

pub fn evs_to_json(evs: &[Ev]) -> Value {
    Value::Array(evs.iter().map(|e| e.to_json()).collect())
}
pub fn evs_from_json(v: &Value) -> Option<Vec<Ev>> {
    v.as_array()?.iter().map(Ev::from_json).collect()
}

/// Key events that type `text` (ASCII) with modifier 0 and selection 0.
pub fn type_evs(text: &str) -> Vec<Ev> {
    text.chars().map(|c| Ev::Key(kc(c), 0, 0)).collect()
}

// ---------------------------------------------------------------------------
// Session: one context + its configuration, every call guarded

pub struct Sess {
    pub ctx: RitiContext,
    pub spec: CfgSpec,
    pub cfg: Config,
    pub root: PathBuf,
}

impl Sess {
    pub fn new(spec: CfgSpec, root: &Path) -> Result<Sess, Panic> {
        let cfg = guard(|| spec.build(root))?;
        let ctx = guard(|| RitiContext::new_with_config(&cfg))?;
        Ok(Sess { ctx, spec, cfg, root: root.to_path_buf() })
    }
    pub fn key(&self, k: u16, m: u8, s: u8) -> Result<Suggestion, Panic> {
        well_formed(guard(|| self.ctx.get_suggestion_for_key(k, m, s))?)
    }
    pub fn bs(&self, ctrl: bool) -> Result<Suggestion, Panic> {
        well_formed(guard(|| self.ctx.backspace_event(ctrl))?)
    }
    pub fn commit(&self, i: usize) -> Result<(), Panic> {
        guard(|| self.ctx.candidate_committed(i))
    }
    pub fn finish(&self) -> Result<(), Panic> {
        guard(|| self.ctx.finish_input_session())
    }
    pub fn ongoing(&self) -> Result<bool, Panic> {
        guard(|| self.ctx.ongoing_input_session())
    }
    pub fn update(&mut self, spec: CfgSpec) -> Result<(), Panic> {
        let root = self.root.clone();
        let cfg = guard(|| spec.build(&root))?;
        let ctx = &mut self.ctx;
        guard(|| ctx.update_engine(&cfg))?;
        self.cfg = cfg;
        self.spec = spec;
        Ok(())
    }
    /// update_engine with the configuration delivered as `mode` says: 0 = a newly built configuration object,
    /// 1..=4 = the session's own object changed through its setters (see `CfgSpec::apply`).
    pub fn update_with(&mut self, spec: CfgSpec, mode: u8) -> Result<(), Panic> {
        if mode == 0 || spec.small != self.spec.small {
            return self.update(spec);
        }
        let old = self.spec;
        let cfg = &mut self.cfg;
        guard(|| spec.apply(cfg, &old, mode))?;
        let (ctx, cfg) = (&mut self.ctx, &self.cfg);
        guard(|| ctx.update_engine(cfg))?;
        self.spec = spec;
        Ok(())
    }
    pub fn restart(&mut self) -> Result<(), Panic> {
        let cfg = &self.cfg;
        let ctx = guard(|| RitiContext::new_with_config(cfg))?;
        self.ctx = ctx;
        Ok(())
    }
    pub fn state(&self) -> Value {
        guard(|| self.ctx.verif_state())
            .ok()
            .and_then(|s| serde_json::from_str(&s).ok())
            .unwrap_or(Value::Null)
    }
    /// Type ASCII text key by key (modifier 0, selection 0); returns the last suggestion.
    pub fn type_text(&self, text: &str) -> Result<Option<Suggestion>, Panic> {
        let mut last = None;
        for (i, c) in text.chars().enumerate() {
            last = Some(self.key(self.route(text, i, c), 0, 0)?);
        }
        Ok(last)
    }
    /// Key code for the i-th character of `text`. In the phonetic method the number-pad keys type the same characters
    /// as their main-block twins; a third of those characters (fixed by the text, so that a replay types the same keys)
    /// go through the number pad.
    pub fn route(&self, text: &str, i: usize, c: char) -> u16 {
        if self.spec.lay == Lay::Phonetic && (c.is_ascii_digit() || matches!(c, '.' | '+' | '-' | '*' | '/')) && (fnv_str(&[text]) as usize).wrapping_add(i) % 3 == 0 {
            if let Some(k) = KEYS.iter().find(|k| k.numpad && k.ch == Some(c)) {
                return k.code;
            }
        }
        kc(c)
    }
    /// Type with "protocol" selection bytes: each key carries the pre-selected
    /// index of the previously returned list (what a front-end highlights).
    pub fn type_text_protocol(&self, text: &str) -> Result<Option<Suggestion>, Panic> {
        let mut last: Option<Suggestion> = None;
        let mut sel = 0u8;
        for (i, c) in text.chars().enumerate() {
            let s = self.key(self.route(text, i, c), 0, sel)?;
            sel = if s.is_lonely() { 0 } else { s.previously_selected_index().min(255) as u8 };
            last = Some(s);
        }
        Ok(last)
    }
}

/// A `String` that is not UTF-8 can only come out of `unsafe` code; every later use of it is undefined behaviour (the
/// harness itself would panic while formatting it). It is reported like a panic of the call that returned it.
fn well_formed(s: Suggestion) -> Result<Suggestion, Panic> {
    let bad = |t: &str| std::str::from_utf8(t.as_bytes()).is_err();
    let broken = if s.is_lonely() {
        bad(s.get_lonely_suggestion())
    } else {
        bad(s.get_auxiliary_text()) || s.get_suggestions().iter().any(|c| bad(c))
    };
    if broken {
        let shown = if s.is_lonely() { s.get_lonely_suggestion().as_bytes().to_vec() } else { s.get_auxiliary_text().as_bytes().to_vec() };
        std::mem::forget(s);
        return Err(Panic { loc: "riti:returned-text-is-not-utf8".into(), msg: format!("bytes {:02x?}", shown) });
    }
    Ok(s)
}

/// Result of one executed event.
#[derive(Clone, Debug, PartialEq, Eq)]
pub enum Obs {
    Sugg(Rs),
    Unit,
}

pub const BENGALI_BLOCK: std::ops::RangeInclusive<char> = '\u{0980}'..='\u{09FF}';

pub fn uncurl(s: &str) -> String {
    s.chars()
        .map(|c| match c {
            '‘' | '’' => '\'',
            '“' | '”' => '"',
            c => c,
        })
        .collect()
}
pub fn curl_open(s: &str) -> String {
    s.chars()
        .map(|c| match c {
            '\'' => '‘',
            '"' => '“',
            c => c,
        })
        .collect()
}
pub fn curl_close(s: &str) -> String {
    s.chars()
        .map(|c| match c {
            '\'' => '’',
            '"' => '”',
            c => c,
        })
        .collect()
}

/// Levenshtein distance over code points (our own implementation).
pub fn lev(a: &str, b: &str) -> usize {
    let a: Vec<char> = a.chars().collect();
    let b: Vec<char> = b.chars().collect();
    let mut d: Vec<usize> = (0..=b.len()).collect();
    for i in 1..=a.len() {
        let mut prev = d[0];
        d[0] = i;
        for j in 1..=b.len() {
            let t = d[j];
            d[j] = if a[i - 1] == b[j - 1] { prev } else { 1 + prev.min(d[j]).min(d[j - 1]) };
            prev = t;
        }
    }
    d[b.len()]
}

#[derive(Clone, Copy, PartialEq, Eq, Debug)]
pub enum Tier {
    Quick,
    Thorough,
}
impl Tier {
    pub fn name(self) -> &'static str {
        match self {
            Tier::Quick => "quick",
            Tier::Thorough => "thorough",
        }
    }
    pub fn pick<T>(self, q: T, t: T) -> T {
        match self {
            Tier::Quick => q,
            Tier::Thorough => t,
        }
    }
}
