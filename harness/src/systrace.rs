//! Syscall-level monitor of the learned-selection store (used by C09 and C10).
//!
//! A child process of this same binary (`vcheck --child save-trace <root> <seed> <rounds>`) runs a small history of
//! typings and commits on real contexts under `strace`; the parent checks the recorded system calls against a trace
//! specification. What is observed is what the kernel saw, not what the library says it did:
//!
//!  S1  the store path itself is never opened for writing, truncated or unlinked (a reader - every application that hosts
//!      the input method creates contexts over the same file - would see an empty or partial store at that instant);
//!  S2  the store only ever changes by a rename onto it, whose source was opened for writing, written (> 0 bytes) and
//!      closed before the rename, in the same directory;
//!  S3  every learning commit (an index other than the pre-selected one) is followed by exactly one such rename before
//!      the call returns; a commit of the pre-selected index and every key event, backspace, finish, update_engine and
//!      context creation perform no write-mode open, rename, unlink or truncation under the user directory at all.
//!
//! The child brackets every library call with marker system calls (`access("VERIF-MARK:<kind>:<n>:begin|end")`, which fail
//! with ENOENT and are otherwise inert) so that the parent can attribute the system calls in between to that call.

use crate::base::*;
use serde_json::{json, Value};
use std::collections::HashMap;
use std::path::Path;

fn mark(kind: &str, n: usize, edge: &str) {
    let s = std::ffi::CString::new(format!("VERIF-MARK:{kind}:{n}:{edge}")).unwrap();
    unsafe {
        libc::access(s.as_ptr(), 0);
    }
}

/// Child side. Prints one JSON line describing what it did.
pub fn child_main(a: &[String]) -> i32 {
    if a.len() < 3 {
        return 64;
    }
    install_panic_hook();
    let root = std::path::PathBuf::from(&a[0]);
    let seed: u64 = a[1].parse().unwrap_or(1);
    let rounds: usize = a[2].parse().unwrap_or(12);
    let mut rng = Rng::derive(seed, "save-trace", 0);
    let words = ["ami", "tumi", "kotha", "sesh", "onno", "amar", "as", "kor", "bari", "din", "rat", "boi", "(ami)", "\"sesh\"", "kotha."];
    let opts = [O_PSUGG, O_PSUGG | O_ENG, O_PSUGG | O_SQ | O_ENG];
    let mut spec = CfgSpec::new(Lay::Phonetic, opts[rng.below(3)]);
    mark("create", 0, "begin");
    let mut sess = match Sess::new(spec, &root) {
        Ok(s) => s,
        Err(p) => {
            println!("{}", json!({"child_error": format!("context creation panicked at {}", p.loc)}));
            return 3;
        }
    };
    mark("create", 0, "end");
    let (mut nlearn, mut nsame, mut nkeys, mut ncreate, mut nupdate) = (0usize, 0usize, 0usize, 1usize, 0usize);
    let mut log: Vec<Value> = vec![];
    for r in 0..rounds {
        match rng.below(8) {
            0 => {
                mark("create", ncreate, "begin");
                let ok = sess.restart().is_ok();
                mark("create", ncreate, "end");
                ncreate += 1;
                log.push(json!(["new-context", ok]));
            }
            1 => {
                spec = CfgSpec::new(Lay::Phonetic, opts[rng.below(3)]);
                mark("update", nupdate, "begin");
                let ok = sess.update_with(spec, [0u8, 1, 3][rng.below(3)]).is_ok();
                mark("update", nupdate, "end");
                nupdate += 1;
                log.push(json!(["update_engine", spec.short(), ok]));
            }
            _ => {}
        }
        let w = words[rng.below(words.len())];
        mark("typing", nkeys, "begin");
        let s = sess.type_text_protocol(w);
        mark("typing", nkeys, "end");
        nkeys += 1;
        let Ok(Some(s)) = s else {
            let _ = sess.finish();
            continue;
        };
        if s.is_lonely() || s.len() < 2 {
            let _ = sess.finish();
            continue;
        }
        let pre = s.previously_selected_index();
        let learn = r % 3 != 2;
        let idx = if learn { (pre + 1 + rng.below(s.len() - 1)) % s.len() } else { pre };
        let (kind, n) = if idx != pre { ("learn", nlearn) } else { ("same", nsame) };
        mark(kind, n, "begin");
        let ok = sess.commit(idx).is_ok();
        mark(kind, n, "end");
        if idx != pre {
            nlearn += 1;
        } else {
            nsame += 1;
        }
        log.push(json!(["commit", w, idx, pre, ok]));
    }
    println!("{}", json!({"child": "save-trace", "learning_commits": nlearn, "preselected_commits": nsame, "typings": nkeys, "contexts_created": ncreate, "updates": nupdate, "history": log}));
    0
}

#[derive(Default)]
pub struct TraceTally {
    pub runs: u64,
    pub syscalls: u64,
    pub markers: u64,
    pub learn_windows: u64,
    pub same_windows: u64,
    pub quiet_windows: u64,
    pub renames_onto_store: u64,
    pub bytes_written_to_temporaries: u64,
    pub unavailable: u64,
}

pub struct TraceViolation {
    pub clause: &'static str,
    pub sig: String,
    pub expected: String,
    pub observed: String,
    pub excerpt: Vec<String>,
}

/// One parsed system call.
struct Call {
    name: String,
    args: String,
    ret: String,
    raw: String,
}

fn parse_line(l: &str) -> Option<Call> {
    // "<pid> name(args) = ret ..."; unfinished/resumed pairs are not produced for these short calls with one thread
    let l = l.trim();
    let (_, rest) = l.split_once(' ')?;
    let rest = rest.trim_start();
    let p = rest.find('(')?;
    let name = rest[..p].to_string();
    if !name.chars().all(|c| c.is_ascii_alphanumeric() || c == '_') {
        return None;
    }
    // strace pads short calls: "close(3)      = 0"
    let e = rest.rfind(" = ")?;
    let q = rest[..e].trim_end().rfind(')')?;
    if q < p {
        return None;
    }
    Some(Call { name, args: rest[p + 1..q].to_string(), ret: rest[e + 3..].split_whitespace().next().unwrap_or("").to_string(), raw: l.to_string() })
}

fn quoted(args: &str) -> Vec<String> {
    // the double-quoted strings of an argument list (paths do not contain quotes here)
    let mut v = vec![];
    let mut it = args.split('"');
    it.next();
    while let Some(s) = it.next() {
        v.push(s.to_string());
        it.next();
    }
    v
}

/// Run one traced child and check its system calls. `Err(reason)` = the monitor could not observe (strace missing, ...).
pub fn run_and_check(root: &Path, logdir: &Path, seed: u64, rounds: usize, t: &mut TraceTally) -> Result<(Vec<TraceViolation>, Value), String> {
    let exe = std::env::current_exe().map_err(|e| e.to_string())?;
    fresh_root(root);
    let _ = std::fs::create_dir_all(logdir);
    let log = logdir.join(format!("strace-{seed}.log"));
    let _ = std::fs::remove_file(&log);
    let outp = std::process::Command::new("strace")
        .args(["-f", "-qq", "-s", "0", "-o"])
        .arg(&log)
        .args(["-e", "trace=open,openat,creat,rename,renameat,renameat2,unlink,unlinkat,truncate,ftruncate,write,pwrite64,writev,close,access,link,linkat,symlink,symlinkat"])
        .arg(&exe)
        .args(["--child", "save-trace"])
        .arg(root)
        .arg(seed.to_string())
        .arg(rounds.to_string())
        .stdin(std::process::Stdio::null())
        .output()
        .map_err(|e| format!("strace could not be started: {e}"))?;
    let stdout = String::from_utf8_lossy(&outp.stdout).to_string();
    let child: Value = stdout.lines().rev().find_map(|l| serde_json::from_str::<Value>(l).ok()).unwrap_or(Value::Null);
    if !outp.status.success() || child.get("child").is_none() {
        t.unavailable += 1;
        return Err(format!("traced child failed (status {:?}): {} {}", outp.status.code(), stdout.chars().take(200).collect::<String>(), String::from_utf8_lossy(&outp.stderr).chars().take(200).collect::<String>()));
    }
    let text = std::fs::read_to_string(&log).map_err(|e| format!("no strace log: {e}"))?;
    let _ = std::fs::remove_file(&log);
    t.runs += 1;
    let udir = user_dir(root).to_string_lossy().to_string();
    let store = selection_file(root).to_string_lossy().to_string();
    let mut viol: Vec<TraceViolation> = vec![];
    // fd -> (path, opened for writing, bytes written) for files under the user directory
    let mut fds: HashMap<String, (String, bool, u64)> = HashMap::new();
    // path -> bytes written and closed
    let mut closed_written: HashMap<String, u64> = HashMap::new();
    let mut window: Option<(String, usize)> = None;
    let mut window_calls: Vec<String> = vec![];
    let mut window_renames = 0u64;
    let mut window_mutations = 0u64;
    let mut seen_learn = 0u64;
    let mut push = |viol: &mut Vec<TraceViolation>, clause: &'static str, sig: String, expected: String, observed: String, excerpt: &[String]| {
        if viol.len() < 8 {
            viol.push(TraceViolation { clause, sig, expected, observed, excerpt: excerpt.iter().rev().take(12).rev().cloned().collect() });
        }
    };
    for line in text.lines() {
        let Some(c) = parse_line(line) else { continue };
        t.syscalls += 1;
        let paths = quoted(&c.args);
        if c.name == "access" {
            if let Some(m) = paths.first().and_then(|p| p.strip_prefix("VERIF-MARK:")) {
                t.markers += 1;
                let parts: Vec<&str> = m.split(':').collect();
                if parts.len() == 3 {
                    let (kind, n, edge) = (parts[0].to_string(), parts[1].parse::<usize>().unwrap_or(0), parts[2]);
                    if edge == "begin" {
                        window = Some((kind, n));
                        window_calls.clear();
                        window_renames = 0;
                        window_mutations = 0;
                    } else if let Some((k, _)) = window.take() {
                        match k.as_str() {
                            "learn" => {
                                t.learn_windows += 1;
                                seen_learn += 1;
                                if window_renames != 1 {
                                    push(&mut viol, "saved-exactly-once", format!("c09:syscalls:learning-commit-renames={window_renames}"), "exactly one rename of a completely written temporary file onto the store during a learning commit".into(),
                                         format!("{window_renames} renames onto the store"), &window_calls);
                                }
                            }
                            "same" => {
                                t.same_windows += 1;
                                if window_mutations != 0 {
                                    push(&mut viol, "preselected-commit-writes-nothing", "c09:syscalls:preselected-commit-touches-the-user-directory".into(), "no write-mode open, rename, unlink or truncation under the user directory while the pre-selected candidate is committed".into(),
                                         format!("{window_mutations} such calls"), &window_calls);
                                }
                            }
                            _ => {
                                t.quiet_windows += 1;
                                if window_mutations != 0 {
                                    push(&mut viol, "only-learning-commits-write", format!("c09:syscalls:{k}-touches-the-user-directory"), format!("no write-mode open, rename, unlink or truncation under the user directory during {k}"),
                                         format!("{window_mutations} such calls"), &window_calls);
                                }
                            }
                        }
                    }
                }
            }
            continue;
        }
        let under = paths.iter().any(|p| p.starts_with(&udir));
        let on_fd = matches!(c.name.as_str(), "write" | "pwrite64" | "writev" | "close" | "ftruncate") && fds.contains_key(c.args.split(',').next().unwrap_or("").trim());
        if !under && !on_fd {
            continue;
        }
        if window.is_some() {
            window_calls.push(c.raw.clone());
        }
        match c.name.as_str() {
            "open" | "openat" | "creat" => {
                let path = paths.iter().find(|p| p.starts_with(&udir)).cloned().unwrap_or_default();
                let wr = c.name == "creat" || c.args.contains("O_WRONLY") || c.args.contains("O_RDWR");
                let ok = !c.ret.starts_with('-');
                if wr {
                    window_mutations += 1;
                    if path == store {
                        push(&mut viol, "store-never-partially-written", format!("c09:syscalls:store-opened-for-writing:{}", if c.args.contains("O_TRUNC") { "truncating" } else { "in-place" }),
                             "the store path is only ever replaced by a rename; it is never opened for writing".into(), c.raw.clone(), &window_calls);
                    }
                }
                if ok {
                    fds.insert(c.ret.clone(), (path, wr, 0));
                }
            }
            "write" | "pwrite64" | "writev" => {
                let fd = c.args.split(',').next().unwrap_or("").trim().to_string();
                if let Some(e) = fds.get_mut(&fd) {
                    let n: u64 = c.ret.parse().unwrap_or(0);
                    e.2 += n;
                    t.bytes_written_to_temporaries += n;
                }
            }
            "ftruncate" | "truncate" => {
                window_mutations += 1;
                let fd = c.args.split(',').next().unwrap_or("").trim().to_string();
                let path = fds.get(&fd).map(|e| e.0.clone()).or_else(|| paths.first().cloned()).unwrap_or_default();
                if path == store {
                    push(&mut viol, "store-never-partially-written", "c09:syscalls:store-truncated".into(), "the store is never truncated".into(), c.raw.clone(), &window_calls);
                }
            }
            "close" => {
                let fd = c.args.trim().to_string();
                if let Some((path, wr, n)) = fds.remove(&fd) {
                    if wr {
                        closed_written.insert(path, n);
                    }
                }
            }
            "unlink" | "unlinkat" => {
                window_mutations += 1;
                if paths.iter().any(|p| *p == store) && !c.ret.starts_with('-') {
                    push(&mut viol, "store-never-partially-written", "c09:syscalls:store-unlinked".into(), "the store is never removed".into(), c.raw.clone(), &window_calls);
                }
            }
            "rename" | "renameat" | "renameat2" | "link" | "linkat" | "symlink" | "symlinkat" => {
                window_mutations += 1;
                let under_paths: Vec<&String> = paths.iter().filter(|p| p.starts_with(&udir)).collect();
                let (src, dst) = (paths.first().cloned().unwrap_or_default(), paths.last().cloned().unwrap_or_default());
                if dst == store && !c.ret.starts_with('-') {
                    window_renames += 1;
                    t.renames_onto_store += 1;
                    let written = closed_written.remove(&src);
                    let still_open = fds.values().any(|e| e.0 == src);
                    if written.map_or(true, |n| n == 0) || still_open || Path::new(&src).parent() != Path::new(&store).parent() {
                        push(&mut viol, "store-replaced-by-a-complete-file", "c09:syscalls:rename-source-not-complete".into(), "the file renamed onto the store was opened for writing, written (> 0 bytes) and closed before, in the same directory".into(),
                             format!("{} (bytes written and closed: {written:?}, still open: {still_open})", c.raw), &window_calls);
                    }
                    if window.as_ref().map(|w| w.0.as_str()) != Some("learn") {
                        push(&mut viol, "only-learning-commits-write", "c09:syscalls:store-replaced-outside-a-learning-commit".into(), "the store changes only during a learning commit".into(), c.raw.clone(), &window_calls);
                    }
                } else if src == store && !c.ret.starts_with('-') {
                    push(&mut viol, "store-never-partially-written", "c09:syscalls:store-moved-away".into(), "the store is never moved away".into(), c.raw.clone(), &window_calls);
                }
                let _ = under_paths;
            }
            _ => {}
        }
    }
    let want = child.get("learning_commits").and_then(|n| n.as_u64()).unwrap_or(0);
    if seen_learn != want {
        return Err(format!("marker windows seen ({seen_learn}) differ from the child's own count ({want}): the trace is incomplete"));
    }
    // the store the child left behind must be a JSON object of strings
    if want > 0 {
        let ok = std::fs::read(selection_file(root)).ok().and_then(|b| serde_json::from_slice::<HashMap<String, String>>(&b).ok()).is_some();
        if !ok {
            push(&mut viol, "store-replaced-by-a-complete-file", "c09:syscalls:store-not-loadable-at-the-end".into(), "a JSON object of strings".into(), String::from_utf8_lossy(&std::fs::read(selection_file(root)).unwrap_or_default()).chars().take(200).collect(), &[]);
        }
    }
    Ok((viol, child))
}
