//! Classification of a phonetic candidate list by the independent oracles.
//! Used by C07 (ranking), C08 (justification), C16/C17/C18 (phonetic halves).

use crate::base::*;
use crate::oracle::phon::{split, PhonOracle, Why};
use std::collections::HashMap;

#[derive(Clone, Debug, PartialEq, Eq)]
pub enum Class {
    /// emoji listed for the word part (index in table order)
    NameEmoji(usize),
    /// emoji of the emoticon the whole text spells
    EmoticonEmoji,
    /// the literal typed text of an emoticon
    EmoticonLiteral,
    /// the raw typed text offered by the English option
    English,
    /// explained by O-dict / transliteration
    Explained(Vec<Why>),
    /// wrapping found, but no explanation for the middle part
    Unexplained(String),
    /// does not carry the expected wrapping at all
    Unwrapped,
}

pub struct View {
    pub lead: String,
    pub word: String,
    pub trail: String,
    /// converted (and possibly curled) wrapping
    pub pre: String,
    pub post: String,
    pub translit: String,
    pub emoticon: Option<&'static str>,
    pub name_emojis: Vec<String>,
    pub classes: Vec<Class>,
}

pub fn wrapping(o: &PhonOracle, spec: &CfgSpec, text: &str) -> (String, String, String, String, String) {
    let (lead, word, trail) = split(text, false);
    let mut pre = o.avro(&lead);
    let mut post = o.avro(&trail);
    if spec.has(O_SQ) && !word.is_empty() {
        pre = curl_open(&pre);
        post = curl_close(&post);
    }
    (lead, word, trail, pre, post)
}

pub fn classify(o: &mut PhonOracle, spec: &CfgSpec, text: &str, list: &[String], user_ac: Option<&HashMap<String, String>>) -> View {
    let (lead, word, trail, pre, post) = wrapping(o, spec, text);
    let ansi = spec.has(O_ANSI);
    let emoticon = if ansi { None } else { o.emoticons.get(text).copied() };
    let name_emojis: Vec<String> = if ansi || emoticon.is_some() {
        vec![]
    } else {
        o.emojis.get(word.as_str()).map(|l| l.iter().map(|e| format!("{pre}{e}{post}")).collect()).unwrap_or_default()
    };
    let translit = o.avro(&word);
    let english = spec.english();
    let mut classes = Vec::with_capacity(list.len());
    for (i, x) in list.iter().enumerate() {
        if let Some(e) = emoticon {
            if x == e {
                classes.push(Class::EmoticonEmoji);
                continue;
            }
        }
        if let Some(k) = name_emojis.iter().position(|e| e == x) {
            classes.push(Class::NameEmoji(k));
            continue;
        }
        // the middle part, if the candidate carries the wrapping
        let mid = x.strip_prefix(pre.as_str()).and_then(|r| r.strip_suffix(post.as_str()));
        let why = match mid {
            Some(m) => o.explain(&word, m, user_ac),
            None => vec![],
        };
        if !why.is_empty() {
            classes.push(Class::Explained(why));
            continue;
        }
        if emoticon.is_some() && x == text {
            classes.push(Class::EmoticonLiteral);
            continue;
        }
        if english && x == text && i == list.len() - 1 {
            classes.push(Class::English);
            continue;
        }
        match mid {
            Some(m) => classes.push(Class::Unexplained(m.to_string())),
            None => classes.push(Class::Unwrapped),
        }
    }
    View { lead, word, trail, pre, post, translit, emoticon, name_emojis, classes }
}

impl View {
    /// Direct candidates (auto-correct entry or dictionary match of the word itself) among the list, as middle parts.
    pub fn direct_middles(&self, list: &[String]) -> Vec<String> {
        let mut out = vec![];
        let dictish = |c: &Class| matches!(c, Class::Explained(w) if w.iter().any(|y| y.key().is_some()) && !w.iter().any(|y| matches!(y, Why::Translit)));
        for (i, (x, c)) in list.iter().zip(&self.classes).enumerate() {
            if let Class::Explained(w) = c {
                if !w.iter().any(|y| matches!(y, Why::AutoCorrect | Why::Dict(_))) {
                    continue;
                }
                // A candidate that is also the plain transliteration may be on the list only as such (riti does not look up
                // words starting with an upper-case letter). It counts as a dictionary match when it is ranked among the
                // dictionary words, i.e. another dictionary-class candidate follows it, or when it is the auto-correct entry.
                // (only such words are ambiguous: a word that starts with anything else is always looked up)
                let never_looked_up = self.word.chars().next().map_or(false, |c| c.is_ascii_uppercase());
                let ambiguous = never_looked_up && w.iter().any(|y| matches!(y, Why::Translit)) && !w.iter().any(|y| matches!(y, Why::AutoCorrect));
                if ambiguous && !self.classes[i + 1..].iter().any(dictish) {
                    continue;
                }
                if let Some(m) = x.strip_prefix(self.pre.as_str()).and_then(|r| r.strip_suffix(self.post.as_str())) {
                    out.push(m.to_string());
                }
            }
        }
        out
    }
}
