//! Shared pieces for the phonetic monitors: text sources, typing helpers.

use crate::base::*;
use crate::oracle::phon::PhonOracle;
use riti::suggestion::Suggestion;

/// The 94 typeable ASCII characters.
pub fn all94() -> Vec<char> {
    (33u8..127).map(|b| b as char).collect()
}
/// 20-symbol sub-alphabet containing every character class the splitter distinguishes.
pub const SUB20: &str = "aeioktrsn`:.;'\"-\\$1Z";

pub fn typeable(s: &str) -> bool {
    !s.is_empty() && s.chars().all(|c| c.is_ascii_graphic())
}

/// Type `text` from idle (protocol selection bytes), return the last suggestion, end the word with finish.
pub fn type_finish(sess: &Sess, text: &str) -> Result<Suggestion, Panic> {
    let s = sess.type_text_protocol(text)?;
    sess.finish()?;
    Ok(s.expect("non-empty text"))
}

/// All strings over `alpha` of length 1..=maxlen.
pub fn strings_upto(alpha: &[char], maxlen: usize) -> Vec<String> {
    let mut out: Vec<String> = vec![];
    let mut level: Vec<String> = vec![String::new()];
    for _ in 0..maxlen {
        let mut next = Vec::with_capacity(level.len() * alpha.len());
        for p in &level {
            for &c in alpha {
                let mut s = p.clone();
                s.push(c);
                next.push(s);
            }
        }
        out.extend(next.iter().cloned());
        level = next;
    }
    out
}

/// Greedy Bengali -> Avro-Latin romanisation (lower-case letters users would type). Not an oracle:
/// it only proposes spellings, which are kept when the Avro pattern of the spelling matches the word.
pub fn romanise(word: &str) -> Option<String> {
    let mut out = String::new();
    let cs: Vec<char> = word.chars().collect();
    let cons = |c: char| -> Option<&'static str> {
        Some(match c {
            'ক' => "k", 'খ' => "kh", 'গ' => "g", 'ঘ' => "gh", 'ঙ' => "ng", 'চ' => "c", 'ছ' => "ch", 'জ' => "j", 'ঝ' => "jh", 'ঞ' => "n",
            'ট' => "t", 'ঠ' => "th", 'ড' => "d", 'ঢ' => "dh", 'ণ' => "n", 'ত' => "t", 'থ' => "th", 'দ' => "d", 'ধ' => "dh", 'ন' => "n",
            'প' => "p", 'ফ' => "f", 'ব' => "b", 'ভ' => "v", 'ম' => "m", 'য' => "z", 'র' => "r", 'ল' => "l", 'শ' => "sh", 'ষ' => "sh",
            'স' => "s", 'হ' => "h", '\u{09DC}' => "r", '\u{09DD}' => "rh", '\u{09DF}' => "y", 'ৎ' => "t", 'ং' => "ng", 'ঃ' => "h",
            _ => return None,
        })
    };
    let vow = |c: char| -> Option<&'static str> {
        Some(match c {
            'অ' => "o", 'আ' | 'া' => "a", 'ই' | 'ি' => "i", 'ঈ' | 'ী' => "i", 'উ' | 'ু' => "u", 'ঊ' | 'ূ' => "u", 'ঋ' | 'ৃ' => "ri",
            'এ' | 'ে' => "e", 'ঐ' | 'ৈ' => "oi", 'ও' | 'ো' => "o", 'ঔ' | 'ৌ' => "ou",
            _ => return None,
        })
    };
    let mut i = 0;
    while i < cs.len() {
        let c = cs[i];
        if let Some(l) = cons(c) {
            out.push_str(l);
            // inherent vowel when the next letter is a consonant (not joined by hasanta) and we are not at the end
            if i + 1 < cs.len() && cons(cs[i + 1]).is_some() && c != 'ং' && c != 'ঃ' && c != 'ৎ' && cs[i + 1] != 'ং' && cs[i + 1] != 'ঃ' {
                out.push('o');
            }
        } else if let Some(l) = vow(c) {
            out.push_str(l);
        } else if c == '\u{09CD}' || c == '\u{0981}' || c == '\u{200C}' || c == '\u{200D}' {
            // conjunct / nasalisation: nothing typed
        } else {
            return None;
        }
        i += 1;
    }
    if out.is_empty() {
        None
    } else {
        Some(out)
    }
}

/// Dictionary-guided spellings: sample dictionary words, romanise, keep when the Avro pattern of the
/// spelling matches the word (so the word is a candidate of the spelling).
pub fn dict_guided(o: &mut PhonOracle, rng: &mut Rng, n: usize) -> Vec<(String, String)> {
    let mut all: Vec<&String> = o.tables.values().flatten().collect();
    all.sort();
    let mut picked: Vec<String> = vec![];
    let mut tries = 0;
    while picked.len() < n * 3 && tries < n * 10 {
        tries += 1;
        let w = all[rng.below(all.len())];
        if w.chars().count() <= 7 {
            picked.push(w.clone());
        }
    }
    let mut out = vec![];
    // words that occur more than once in the data (within a table or across tables) are always included, whatever their
    // length: they are what the duplicate suppression of the candidate list exists for
    let mut seen: std::collections::HashMap<&String, usize> = std::collections::HashMap::new();
    for w in o.tables.values().flatten() {
        *seen.entry(w).or_insert(0) += 1;
    }
    let mut repeated: Vec<String> = seen.iter().filter(|(_, n)| **n > 1).map(|(w, _)| (*w).clone()).collect();
    repeated.sort();
    for w in repeated {
        if let Some(sp) = romanise(&w) {
            if o.is_dict_match(&sp, &w) {
                out.push((sp, w));
            }
        }
    }
    let n = n + out.len();
    for w in picked {
        if out.len() >= n {
            break;
        }
        let Some(sp) = romanise(&w) else { continue };
        if sp.len() > 12 {
            continue;
        }
        if o.is_dict_match(&sp, &w) {
            out.push((sp, w));
        }
    }
    out
}

/// Random typeable strings with class-weighted characters.
pub fn random_text(rng: &mut Rng, maxlen: usize) -> String {
    const LOWER: &str = "aeioukgtdnprsmhlbcjyz";
    const UPPER: &str = "AEIOUTDNRSGZJ";
    const PUNCT: &str = ".,;:'\"!?()[]{}-_=+*/\\|<>~@#%&`^$";
    const DIGIT: &str = "0123456789";
    let len = rng.range(1, maxlen);
    let mut s = String::new();
    for _ in 0..len {
        let r = rng.below(100);
        let set = if r < 62 {
            LOWER
        } else if r < 72 {
            UPPER
        } else if r < 92 {
            PUNCT
        } else {
            DIGIT
        };
        let cs: Vec<char> = set.chars().collect();
        s.push(cs[rng.below(cs.len())]);
    }
    s
}

pub const WRAPS: [(&str, &str); 7] = [("", ""), ("(", ")"), ("\"", "\""), ("'", "'."), ("*[", "]!"), ("", ":"), ("-", "?!")];
