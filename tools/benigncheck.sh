#!/bin/bash
# usage: tools/benigncheck.sh <dir with patch.diff> [tier] [Cxx ...] — a behaviour-preserving change: every check must stay silent with it applied
d=$(realpath $1); tier=${2:-quick}; shift 2 2>/dev/null
props="$@"; [ -z "$props" ] && props="C01 C02 C03 C04 C05 C06 C07 C08 C09 C10 C11 C12 C13 C14 C15 C16 C17 C18 C19"
bad=0
for p in $props; do
  out=$(/verif/tools/withpatch.sh $d/patch.diff /verif/check $p $tier 2>&1); rc=$?
  if [ $rc -ne 0 ]; then bad=1; echo "$(basename $d) $p $tier: rc=$rc $(echo "$out" | grep -m1 -E 'signature:|INCONCLUSIVE|patch does not apply' | cut -c1-160)"; fi
done
[ $bad -eq 0 ] && echo "$(basename $d): silent on all of: $props"
