#!/usr/bin/env python3
"""Mutation sweep of the monitors: which single-line source mutants of riti do the quick checks report?

usage: tools/mutsweep.py <mutants.jsonl> <results.jsonl> <worker k> <of n> [max]
Worker k takes every n-th mutant. It works in its own scratch copies (never in /repo or /verif):
  /var/tmp/mutsweep/w<k>/repo     git worktree of /repo HEAD (the mutant is written there)
  /var/tmp/mutsweep/w<k>/harness  copy of /verif/harness whose riti dependency points at that worktree
Per mutant: 1. `cargo test --lib` in the worktree: does it compile, do the 43 unit tests still pass?
            2. if so, build the harness copy and run the quick checks (most relevant first) until one reports a VIOLATION.
One JSON line per mutant is appended to results: status = invalid | killed-by-unit-tests | killed (by, signature) | survived | inconclusive.
ffi.rs mutants are only judged by C19, which builds its drivers from /repo itself: they are listed as `needs-c19` and are
run afterwards, one at a time, with tools/withpatch.sh.
Remove the scratch with: tools/mutsweep.py --clean <n>"""
import json, os, subprocess, sys, time, shutil, re

ROOT = "/var/tmp/mutsweep"
CARGO_HOME = os.environ.get("CARGO_HOME", os.path.expanduser("~/.cargo"))
RUSTUP_HOME = os.environ.get("RUSTUP_HOME", os.path.expanduser("~/.rustup"))
PHON = ["C03", "C07", "C08", "C05", "C09", "C02", "C06", "C01", "C17", "C18", "C16", "C10", "C11", "C04", "C12", "C13", "C14", "C15"]
FIXD = ["C12", "C04", "C13", "C14", "C15", "C02", "C06", "C18", "C17", "C16", "C01", "C11", "C03", "C07", "C08", "C05", "C09", "C10"]
BOTH = ["C02", "C03", "C12", "C07", "C15", "C17", "C16", "C18", "C11", "C04", "C06", "C08", "C13", "C14", "C05", "C09", "C10", "C01"]

def sh(cmd, cwd=None, env=None, timeout=None):
    e = dict(os.environ, CARGO_NET_OFFLINE="true")
    if env: e.update(env)
    if env and "HOME" in env: e.pop("XDG_DATA_HOME", None); os.makedirs(env["HOME"], exist_ok=True)
    try:
        p = subprocess.run(cmd, cwd=cwd, env=e, capture_output=True, text=True, timeout=timeout, errors="replace")
        return p.returncode, p.stdout + p.stderr
    except subprocess.TimeoutExpired as x:
        return 124, (x.stdout or b"").decode(errors="replace") if isinstance(x.stdout, bytes) else (x.stdout or "")

def clean(n):
    for k in range(n):
        d = f"{ROOT}/w{k}"
        sh(["git", "-C", "/repo", "worktree", "remove", "--force", f"{d}/repo"])
        shutil.rmtree(d, ignore_errors=True)
    sh(["git", "-C", "/repo", "worktree", "prune"])
    try: os.rmdir(ROOT)
    except OSError: pass

def setup(k):
    d = f"{ROOT}/w{k}"
    os.makedirs(d, exist_ok=True)
    if not os.path.isdir(f"{d}/repo"):
        rc, out = sh(["git", "-C", "/repo", "worktree", "add", "--detach", f"{d}/repo", "HEAD"])
        if rc: sys.exit(out)
    sh(["git", "-C", f"{d}/repo", "checkout", "--", "."])
    shutil.rmtree(f"{d}/harness", ignore_errors=True)
    shutil.copytree("/verif/harness", f"{d}/harness", ignore=shutil.ignore_patterns("target"))
    t = open(f"{d}/harness/Cargo.toml").read().replace('path = "/repo"', f'path = "{d}/repo"')
    open(f"{d}/harness/Cargo.toml", "w").write(t)
    os.makedirs(f"{d}/harness/.cargo", exist_ok=True)
    open(f"{d}/harness/.cargo/config.toml", "w").write(f'[net]\noffline = true\n\n[build]\ntarget-dir = "{d}/target"\n')
    rc, out = sh(["cargo", "build", "--release", "--offline", "--bin", "vcheck"], cwd=f"{d}/harness")
    if rc: sys.exit("harness copy does not build:\n" + out[-3000:])
    return d

def main():
    if sys.argv[1] == "--clean":
        clean(int(sys.argv[2])); return
    mutants = [json.loads(l) for l in open(sys.argv[1], encoding="utf-8")]
    res_path, k, n = sys.argv[2], int(sys.argv[3]), int(sys.argv[4])
    limit = int(sys.argv[5]) if len(sys.argv) > 5 else 10**9
    done = set()
    if os.path.exists(res_path):
        for l in open(res_path, encoding="utf-8"):
            try: done.add(json.loads(l)["id"])
            except Exception: pass
    d = setup(k)
    jobs = os.environ.get("MUT_JOBS", "4")
    count = 0
    for idx, m in enumerate(mutants):
        if idx % n != k or m["id"] in done: continue
        if count >= limit: break
        count += 1
        t0 = time.time()
        r = dict(m); r.pop("old", None)
        path = f"{d}/repo/{m['file']}"
        src = open(path, encoding="utf-8").read().split("\n")
        if src[m["line"] - 1] != m["old"]:
            r["status"] = "stale"; emit(res_path, r); continue
        src[m["line"] - 1] = m["new"]
        open(path, "w", encoding="utf-8").write("\n".join(src))
        try:
            rc, out = sh(["cargo", "test", "--offline", "--lib", "--", "--test-threads", "4"], cwd=f"{d}/repo",
                         env={"HOME": f"{d}/home", "CARGO_HOME": CARGO_HOME, "RUSTUP_HOME": RUSTUP_HOME}, timeout=600)
            if "error" in out and "could not compile" in out:
                r["status"] = "invalid"
            elif rc != 0:
                r["status"] = "killed-by-unit-tests"
                f = re.findall(r"^test (\S+) \.\.\. FAILED", out, re.M)
                r["by"] = f[:3] if f else ("timeout" if rc == 124 else "abort")
            elif m["file"] == "src/ffi.rs":
                r["status"] = "needs-c19"
            else:
                rc, out = sh(["cargo", "build", "--release", "--offline", "--bin", "vcheck"], cwd=f"{d}/harness", timeout=900)
                if rc:
                    r["status"] = "invalid"; r["note"] = "release build failed"
                else:
                    order = PHON if "/phonetic/" in m["file"] else FIXD if "/fixed/" in m["file"] else BOTH
                    r["status"] = "survived"; r["inconclusive"] = []
                    for c in order:
                        rc, out = sh([f"{d}/target/release/vcheck", c, "quick"], cwd=f"{d}/harness",
                                     env={"VERIF_JOBS": jobs, "VERIF_SEED": "1", "VERIF_OUT_DIR": f"{d}/out"}, timeout=1200)
                        if rc == 1 and "VIOLATION" in out:
                            r["status"] = "killed"; r["by"] = c
                            s = re.search(r"signature: (.*)", out)
                            r["signature"] = s.group(1)[:160] if s else ""
                            break
                        if rc != 0:
                            r["inconclusive"].append(c)
                    if r["status"] == "survived" and r["inconclusive"]:
                        r["status"] = "survived-with-inconclusive"
        finally:
            sh(["git", "-C", f"{d}/repo", "checkout", "--", "."])
        r["secs"] = round(time.time() - t0, 1)
        emit(res_path, r)

def emit(path, r):
    with open(path, "a", encoding="utf-8") as f:
        f.write(json.dumps(r, ensure_ascii=False) + "\n")
    print(r["id"], r["file"], r["line"], r["op"], "->", r["status"], r.get("by", ""), r.get("secs", ""), flush=True)

main()
