#!/bin/bash
# usage: tools/seedregress.sh [tier] — every kept seeded change against the first check named in its meta.json caught_by; prints the ones no longer caught
tier=${1:-quick}
for d in /verif/seeded/C*/ /verif/seeded/hand/*/; do
  [ -f $d/meta.json ] || continue
  p=$(python3 -c "import json,re;print(' '.join(dict.fromkeys(re.findall(r'C\d\d(?= $tier)', json.load(open('$d/meta.json')).get('caught_by') or ''))))")
  [ -z "$p" ] && { echo "$(basename $d): nothing registered at tier $tier"; continue; }
  for c in $p; do /verif/tools/seedcheck.sh $d $tier $c 2>&1 | grep -v conda; done
done
