#!/bin/bash
# usage: tools/seedimport7.sh <Cxx> [other props...] — import the round-7 agent seeds (worktree /tmp/wt7-Cxx) as seeded/Cxx-g1|g2
p=$1; shift
for n in 1 2; do
  d=/verif/seeded/$p-g$n; mkdir -p $d; cp /tmp/wt7-$p/_seed/$n/* $d/ 2>/dev/null
  python3 - <<PY
import json
json.dump({"id":"$p-g$n","breaks":["$p"],"origin":"independent sub-agent (seventh round: given the property text, its own worktree, the twelve earlier mechanisms to avoid and a list of mechanism classes hardly tried so far)","needs":"see NOTE.md","confirmed":"patch applies to HEAD; 43 unit tests pass with it; the demonstration passes without the patch and fails with it (tools/seedverify.sh)"},open("$d/meta.json","w"),indent=1)
PY
  /verif/tools/seedverify.sh $d
  /verif/tools/seedcheck.sh $d quick $p "$@"
done
git -C /repo worktree remove --force /tmp/wt7-$p 2>/dev/null
