#!/usr/bin/env python3
"""Regenerate seeded/RESULTS.md from the meta.json files (header paragraphs are kept)."""
import json, glob
p = '/verif/seeded/RESULTS.md'
head = open(p).read().split('| id |')[0]
rows = []
for f in sorted(glob.glob('/verif/seeded/C*/meta.json')) + sorted(glob.glob('/verif/seeded/hand/*/meta.json')):
    d = json.load(open(f))
    rows.append('| %s | %s | %s | `%s` | %s |' % (d['id'], ','.join(d['breaks']), d.get('caught_by') or 'NOT CAUGHT', (d.get('signature') or '').replace('|', '\\|'), (d.get('note') or '').replace('|', '\\|')))
open(p, 'w').write(head + '| id | breaks | caught by | signature (first) | note |\n|---|---|---|---|---|\n' + '\n'.join(rows) + '\n')
print(len(rows), 'rows')
