#!/bin/bash
# usage: tools/seedimport.sh <Cxx> [other props to try...] — import both agent seeds of a property, verify, run checks (quick)
p=$1; shift
for n in 1 2; do
  d=/verif/seeded/$p-a$n; mkdir -p $d; cp /tmp/wt-$p/_seed/$n/* $d/ 2>/dev/null
  python3 - <<PY
import json
json.dump({"id":"$p-a$n","breaks":["$p"],"origin":"independent sub-agent given only the property text and its own worktree","needs":"see NOTE.md","confirmed":"patch applies to HEAD; 43 unit tests pass with it; the demonstration passes without the patch and fails with it (tools/seedverify.sh)"},open("$d/meta.json","w"),indent=1)
PY
  /verif/tools/seedverify.sh $d
  /verif/tools/seedcheck.sh $d quick $p "$@"
done
git -C /repo worktree remove --force /tmp/wt-$p 2>/dev/null
