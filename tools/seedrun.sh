#!/bin/bash
# usage: tools/seedrun.sh <seed dir> [tier]  — (1) patch compiles + 43 tests pass in a scratch worktree, (2) run the checks named in meta.json against it.
d=$1; tier=${2:-quick}
wt=/tmp/wt-seedrun
[ -d $wt ] || git -C /repo worktree add -q $wt HEAD
git -C $wt checkout -q --detach $(git -C /repo rev-parse HEAD) 2>/dev/null; git -C $wt checkout -q -- . ; git -C $wt clean -qfd -e target
if ! git -C $wt apply $d/patch.diff; then echo "$(basename $d): PATCH DOES NOT APPLY"; exit 1; fi
t=$(cd $wt && cargo test --workspace --offline 2>&1 | grep "^test result" | head -1)
git -C $wt checkout -q -- .
props=$(python3 -c "import json;print(' '.join(json.load(open('$d/meta.json'))['breaks']))")
res=""
for p in $props; do
  out=$(/verif/tools/withpatch.sh $d/patch.diff /verif/check $p $tier 2>&1); rc=$?
  sig=$(echo "$out" | grep -m1 'signature:' | sed 's/.*signature: //' | cut -c1-90)
  res="$res | $p rc=$rc $sig"
done
echo "$(basename $d): tests[$t]$res"
