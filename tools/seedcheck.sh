#!/bin/bash
# usage: tools/seedcheck.sh <seed dir> <tier> <Cxx> [Cyy ...] — run the named checks with the seeded patch applied to /repo (always undone)
d=$(realpath $1); tier=$2; shift 2
for p in "$@"; do
  s=$(date +%s)
  out=$(/verif/tools/withpatch.sh $d/patch.diff /verif/check $p $tier 2>&1); rc=$?
  sig=$(echo "$out" | grep -m1 'signature:' | sed 's/.*signature: //' | cut -c1-110)
  inc=$(echo "$out" | grep -m1 'INCONCLUSIVE' | cut -c1-120)
  echo "$(basename $d) $p $tier: rc=$rc $(( $(date +%s)-s ))s $sig $inc"
done
