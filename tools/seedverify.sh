#!/bin/bash
# usage: tools/seedverify.sh <seed dir>  — confirm in a scratch worktree: patch applies, 43 tests pass with it,
# the demonstration passes without the patch and fails with it. Prints one line.
d=$(realpath $1)
wt=/tmp/wt-seedrun
[ -d $wt ] || git -C /repo worktree add -q $wt HEAD
git -C $wt checkout -q --detach $(git -C /repo rev-parse HEAD) 2>/dev/null; git -C $wt checkout -q -- . ; git -C $wt clean -qfd -e target
name=demo_$(basename $d | tr -c 'A-Za-z0-9\n' '_')
demo_cmd=""
if [ -f $d/demo.rs ]; then mkdir -p $wt/tests; sed "s#/tmp/wt[0-9]*-C[0-9]*#$wt#g" $d/demo.rs > $wt/tests/$name.rs; demo_cmd="cargo test --offline --test $name"; 
elif [ -f $d/demo.diff ]; then git -C $wt apply $d/demo.diff || { echo "$(basename $d): demo.diff does not apply"; exit 1; }; demo_cmd="cargo test --offline --lib demo"; fi
run_demo() { (cd $wt && XDG_DATA_HOME=/tmp/wt-seedrun-xdg $demo_cmd 2>&1 | grep -E "^test result" | tail -1); }
base=$(run_demo)
if ! git -C $wt apply $d/patch.diff; then echo "$(basename $d): PATCH DOES NOT APPLY"; exit 1; fi
# existing tests with the patch (excluding the demo)
t=$(cd $wt && cargo test --offline --lib 2>&1 | grep "^test result" | head -1)
withp=$(run_demo)
git -C $wt checkout -q -- . ; git -C $wt clean -qfd -e target
echo "$(basename $d): lib-tests-with-patch[$(echo $t | cut -c14-45)] demo-without[$(echo $base | cut -c14-40)] demo-with[$(echo $withp | cut -c14-40)]"
