#!/usr/bin/env python3
"""Judge the `needs-c19` mutants of a mutation sweep (src/ffi.rs) with the C19 quick check, one at a time on /repo itself
(tools/withpatch.sh applies the mutant, runs the check, always undoes it).
usage: tools/mutc19.py <mutants.jsonl> <mutres.jsonl> <out.jsonl> [max]"""
import json, os, subprocess, sys, tempfile, re

ms = {json.loads(l)['id']: json.loads(l) for l in open(sys.argv[1], encoding='utf-8')}
todo = [json.loads(l) for l in open(sys.argv[2], encoding='utf-8')]
todo = [r for r in todo if r['status'] == 'needs-c19']
out = sys.argv[3]
limit = int(sys.argv[4]) if len(sys.argv) > 4 else 10**9
done = set()
if os.path.exists(out):
    done = {json.loads(l)['id'] for l in open(out, encoding='utf-8')}
n = 0
for r in todo:
    if r['id'] in done or n >= limit:
        continue
    n += 1
    m = ms[r['id']]
    src = open('/repo/' + m['file'], encoding='utf-8').read().split('\n')
    # the sweep's line numbers refer to the commit it started from: find the line by content near that position
    cand = [i for i in range(max(0, m['line'] - 12), min(len(src), m['line'] + 12)) if src[i] == m['old']]
    res = {'id': r['id'], 'file': m['file'], 'line': m['line'], 'op': m['op']}
    if not cand:
        res['status'] = 'stale'
    else:
        i = min(cand, key=lambda k: abs(k - (m['line'] - 1)))
        new = list(src); new[i] = m['new']
        with tempfile.NamedTemporaryFile('w', suffix='.diff', delete=False, encoding='utf-8') as tf:
            import difflib
            tf.write(''.join(difflib.unified_diff([l + '\n' for l in src], [l + '\n' for l in new], 'a/' + m['file'], 'b/' + m['file'])))
            patch = tf.name
        p = subprocess.run(['/verif/tools/withpatch.sh', patch, '/verif/check', 'C19', 'quick'], capture_output=True, text=True, errors='replace')
        os.unlink(patch)
        o = p.stdout + p.stderr
        if p.returncode == 1 and 'VIOLATION' in o:
            res['status'] = 'killed'; res['by'] = 'C19'
            s = re.search(r'signature: (.*)', o); res['signature'] = s.group(1)[:140] if s else ''
        elif p.returncode == 0:
            res['status'] = 'survived'
        else:
            res['status'] = 'survived-with-inconclusive'; res['note'] = o[-300:]
    with open(out, 'a', encoding='utf-8') as f:
        f.write(json.dumps(res, ensure_ascii=False) + '\n')
    print(res['id'], res['line'], res['op'], '->', res['status'], res.get('signature', ''), flush=True)
