#!/bin/bash
# usage: tools/revert_test.sh <commit> <Cxx> [tier]   — apply the reverse of a fix: commit to /repo, run the check, undo.
c=$1; p=$2; tier=${3:-quick}
git -C /repo show -R "$c" -- src > /tmp/revert-$c.diff
out=$(/verif/tools/withpatch.sh /tmp/revert-$c.diff /verif/check $p $tier 2>&1); rc=$?
nv=$(echo "$out" | grep -c "^VIOLATION")
echo "revert $c ($(git -C /repo log --format=%s -1 $c | cut -c1-60)) -> $p $tier: rc=$rc violations=$nv $(echo "$out" | grep -m1 'signature:' | cut -c1-160)"
