#!/bin/bash
# usage: tools/withpatch.sh <patch.diff> <command...>   apply a seeded change to /repo, run the command, always undo.
set -u
patch="$1"; shift
mkdir -p /verif/target
exec 9>/verif/target/.repo.lock; flock -x 9; export VERIF_LOCK_HELD=1
if ! git -C /repo diff --quiet; then echo "/repo has uncommitted changes; refusing"; exit 99; fi
git -C /repo apply "$patch" || { echo "patch does not apply"; exit 98; }
"$@"; rc=$?
git -C /repo checkout -- .
exit $rc
