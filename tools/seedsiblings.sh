#!/bin/bash
# usage: tools/seedsiblings.sh <seed dir> [tier] — run every quick check except the seed's own one with the patch applied; print those that report it
d=$(realpath $1); tier=${2:-quick}; own=$(basename $d | cut -c1-3)
for i in 01 02 03 04 05 06 07 08 09 10 11 12 13 14 15 16 17 18 19; do
  [ "C$i" = "$own" ] && continue
  /verif/tools/seedcheck.sh $d $tier C$i
done
