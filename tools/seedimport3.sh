#!/bin/bash
# usage: tools/seedimport2.sh <Cxx> [other props...] — import the round-3 agent seeds (worktree /tmp/wt3-Cxx) as seeded/Cxx-b1|b2
p=$1; shift
for n in 1 2; do
  d=/verif/seeded/$p-c$n; mkdir -p $d; cp /tmp/wt3-$p/_seed/$n/* $d/ 2>/dev/null
  python3 - <<PY
import json
json.dump({"id":"$p-c$n","breaks":["$p"],"origin":"independent sub-agent (third round: given the property text, its own worktree and one line naming the four earlier mechanisms to avoid)","needs":"see NOTE.md","confirmed":"patch applies to HEAD; 43 unit tests pass with it; the demonstration passes without the patch and fails with it (tools/seedverify.sh)"},open("$d/meta.json","w"),indent=1)
PY
  /verif/tools/seedverify.sh $d
  /verif/tools/seedcheck.sh $d quick $p "$@"
done
git -C /repo worktree remove --force /tmp/wt3-$p 2>/dev/null
