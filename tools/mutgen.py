#!/usr/bin/env python3
"""Generate single-line source mutants of /repo/src (non-test code) for a mutation sweep of the monitors.

usage: tools/mutgen.py > /var/tmp/mutants.jsonl
Each line: {"id", "file", "line" (1-based), "op", "old", "new"}.  Deterministic.
Operators are the usual ones (relational, logical, negation, constants, arithmetic, statement deletion,
boolean literals, dropped alternative of a `|` pattern, swapped sibling methods, break/continue).
Code after the first `#[cfg(test)]` of a file, comment lines, `use`/`mod` lines, capacity hints and the
feature-gated verification hook are not mutated."""
import re, json, sys, os, hashlib

REPO = os.environ.get("MUT_REPO", "/repo")
FILES = ["src/config.rs", "src/context.rs", "src/data.rs", "src/keycodes.rs", "src/suggestion.rs", "src/utility.rs",
         "src/fixed/chars.rs", "src/fixed/layout.rs", "src/fixed/method.rs", "src/fixed/search.rs",
         "src/phonetic/method.rs", "src/phonetic/suggestion.rs", "src/ffi.rs"]

SWAPS = [(".starts_with(", ".ends_with("), (".ends_with(", ".starts_with("), (".first()", ".last()"), (".last()", ".first()"),
         (".min(", ".max("), (".max(", ".min("), (".is_some()", ".is_none()"), (".is_none()", ".is_some()"),
         (".any(", ".all("), (".all(", ".any("), ("unwrap_or_default()", "unwrap_or(1)"),
         (".skip(", ".take("), (".take(", ".skip("), (".is_vowel()", ".is_kar()"), (".is_kar()", ".is_vowel()"),
         (".is_pure_consonant()", ".is_vowel()"), (".insert(0, ", ".push("), ("sort()", "reverse()"),
         (".preceding()", ".trailing()"), (".trailing()", ".preceding()"), (".word()", ".preceding()"),
         ("first_ranked", "last_ranked_x"), (".is_empty()", ".is_empty().eq(&false)"), ("!= ", "== "), ("== ", "!= "),
         (" && ", " || "), (" || ", " && "), (" <= ", " < "), (" >= ", " > "), (" < ", " <= "), (" > ", " >= "),
         (" + ", " - "), (" - ", " + "), ("true", "false"), ("false", "true"), ("break;", "continue;"), ("continue;", "break;"),
         ("continue,", "break,"), ("if !", "if "), ("&& !", "&& "), ("|| !", "|| "), ("(!", "("),
         ("Some(B_HASANTA)", "Some(B_RA)"), ("None =>", "Some(_) =>"), ("..=", ".."), ]

def strip_strings(s):
    return re.sub(r'"(\\.|[^"\\])*"', '""', s)

def muts_of_line(line):
    out = []
    code = line.split("//")[0] if '"' not in line else line
    bare = strip_strings(code)
    for a, b in SWAPS:
        if a == "first_ranked":  # not a real swap; skip (kept for documentation of what was considered)
            continue
        start = 0
        n = 0
        while True:
            i = code.find(a, start)
            if i < 0 or n >= 2:
                break
            # do not touch the inside of string literals
            if code[:i].count('"') % 2 == 0:
                if a in (" < ", " > ") and ("<" in bare and ">" in bare and ("Vec<" in bare or "Option<" in bare or "HashMap<" in bare or "impl " in bare or "->" in bare)):
                    pass
                elif a == "true" and re.search(r"[A-Za-z_]true|true[A-Za-z_]", code[max(0, i - 1): i + 5]):
                    pass
                elif a == "false" and re.search(r"[A-Za-z_]false|false[A-Za-z_]", code[max(0, i - 1): i + 6]):
                    pass
                else:
                    out.append((f"swap:{a.strip()}->{b.strip()}", code[:i] + b + code[i + len(a):] + line[len(code):]))
                    n += 1
            start = i + len(a)
    # integer constants (outside strings, not part of identifiers / hex / floats / ranges of char codes)
    for m in re.finditer(r"(?<![\w.'\"\\x])(\d+)(?![\w.'\"]|x)", code):
        if code[:m.start()].count('"') % 2:
            continue
        v = int(m.group(1))
        if v > 300:
            continue
        for nv in ({v + 1, max(0, v - 1)} - {v}):
            out.append((f"const:{v}->{nv}", code[:m.start()] + str(nv) + code[m.end():] + line[len(code):]))
    # dropped alternative of an or-pattern of char / string / ident literals:  'a' | 'b' | 'c'
    alts = list(re.finditer(r"('(?:\\.|[^'\\])'|\"(?:\\.|[^\"\\])*\"|\b[A-Z][A-Z_0-9]+\b)\s*\|\s*(?=('|\"|[A-Z]))", code))
    for k, m in enumerate(alts[:6]):
        out.append((f"dropalt:{m.group(1)}", code[:m.start()] + code[m.end():] + line[len(code):]))
    m = re.search(r"\|\s*('(?:\\.|[^'\\])'|\b[A-Z][A-Z_0-9]+\b)\s*(\)|=>|$)", code)
    if m and "||" not in code[m.start():m.start() + 2]:
        out.append((f"dropalt-last:{m.group(1)}", code[:m.start()] + " " + code[m.start(2):] + line[len(code):]))
    # statement deletion: a line that is one call / assignment statement
    st = code.strip()
    if re.match(r"^(self\.[\w.]+|[a-z_][\w.]*)\s*(\.\w+\(.*\)|=\s*[^=].*|\+=.*|-=.*);$", st) and not st.startswith("let ") and "return" not in st:
        out.append(("delete-statement", re.match(r"^\s*", line).group(0) + "();" ))
    if re.match(r"^\*?[\w.]+\s*=\s*[^=]", st) is None and re.match(r"^return\b.*;$", st) and st != "return;":
        pass
    return out

def main():
    allm = []
    for f in FILES:
        src = open(os.path.join(REPO, f), encoding="utf-8").read().split("\n")
        end = len(src)
        for i, l in enumerate(src):
            if l.strip().startswith("#[cfg(test)]"):
                end = i
                break
        skip_until = -1
        depth_skip = False
        for i in range(end):
            l = src[i]
            s = l.strip()
            if s.startswith('#[cfg(feature = "verif")]'):
                # skip the hook item: until the line that closes it at the same indentation
                ind = len(l) - len(l.lstrip())
                j = i + 1
                while j < end and not (src[j].startswith(" " * ind + "}") and len(src[j]) - len(src[j].lstrip()) == ind):
                    if src[j].rstrip().endswith(";") and "{" not in src[j] and j == i + 1:
                        break
                    j += 1
                skip_until = j
            if i <= skip_until:
                continue
            if not s or s.startswith("//") or s.startswith("use ") or s.startswith("mod ") or s.startswith("pub mod") or s.startswith("#["):
                continue
            if "with_capacity" in s or "debug_assert" in s or s.startswith("///"):
                continue
            seen = set()
            for op, new in muts_of_line(l):
                if new == l or new in seen:
                    continue
                seen.add(new)
                mid = hashlib.sha1(f"{f}:{i+1}:{op}:{new}".encode()).hexdigest()[:10]
                allm.append({"id": mid, "file": f, "line": i + 1, "op": op, "old": l, "new": new})
    # deterministic shuffle so that any prefix of the list is a fair sample; layout.rs (one big key table) is thinned to 1 in 6
    allm.sort(key=lambda m: hashlib.sha1(m["id"].encode()).hexdigest())
    out = []
    lay = 0
    for m in allm:
        if m["file"] == "src/fixed/layout.rs":
            lay += 1
            if lay % 6:
                continue
        out.append(m)
    for m in out:
        print(json.dumps(m, ensure_ascii=False))
    from collections import Counter
    c = Counter(m["file"] for m in out)
    print(f"{len(out)} mutants: " + ", ".join(f"{k} {v}" for k, v in sorted(c.items())), file=sys.stderr)

main()
