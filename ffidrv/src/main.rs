//! C19 driver: random life cycles over all 33 exported C symbols of riti, with shadow copies.
//! Built plain, with AddressSanitizer/LeakSanitizer, and run under Miri (small data directory).
//!
//! usage: ffidrv <seed> <calls> <full|small> <scratch-root> [sessions]
//! prints one JSON line with per-symbol call counts; exit 0 = all comparisons agreed, 1 = mismatch (details on stdout).

#![allow(improper_ctypes)]

use riti::config::Config;
use riti::context::RitiContext;
use riti::suggestion::Suggestion;
use std::collections::BTreeMap;
use std::ffi::{CStr, CString};
use std::os::raw::c_char;

extern "C" {
    fn riti_context_new_with_config(ptr: *const Config) -> *mut RitiContext;
    fn riti_context_free(ptr: *mut RitiContext);
    fn riti_get_suggestion_for_key(ptr: *mut RitiContext, key: u16, modifier: u8, selection: u8) -> *mut Suggestion;
    fn riti_context_candidate_committed(ptr: *mut RitiContext, index: usize);
    fn riti_context_update_engine(ptr: *mut RitiContext, config: *const Config);
    fn riti_context_ongoing_input_session(ptr: *mut RitiContext) -> bool;
    fn riti_context_finish_input_session(ptr: *mut RitiContext);
    fn riti_context_backspace_event(ptr: *mut RitiContext, ctrl: bool) -> *mut Suggestion;
    fn riti_suggestion_free(ptr: *mut Suggestion);
    fn riti_suggestion_get_suggestion(ptr: *const Suggestion, index: usize) -> *mut c_char;
    fn riti_suggestion_get_lonely_suggestion(ptr: *const Suggestion) -> *mut c_char;
    fn riti_suggestion_get_auxiliary_text(ptr: *const Suggestion) -> *mut c_char;
    fn riti_suggestion_get_pre_edit_text(ptr: *const Suggestion, index: usize) -> *mut c_char;
    fn riti_string_free(ptr: *mut c_char);
    fn riti_suggestion_previously_selected_index(ptr: *const Suggestion) -> usize;
    fn riti_suggestion_get_length(ptr: *const Suggestion) -> usize;
    fn riti_suggestion_is_lonely(ptr: *const Suggestion) -> bool;
    fn riti_suggestion_is_empty(ptr: *const Suggestion) -> bool;
    fn riti_config_new() -> *mut Config;
    fn riti_config_free(ptr: *mut Config);
    fn riti_config_set_layout_file(ptr: *mut Config, path: *const c_char) -> bool;
    fn riti_config_set_database_dir(ptr: *mut Config, path: *const c_char) -> bool;
    fn riti_config_set_suggestion_include_english(ptr: *mut Config, option: bool);
    fn riti_config_set_phonetic_suggestion(ptr: *mut Config, option: bool);
    fn riti_config_set_fixed_suggestion(ptr: *mut Config, option: bool);
    fn riti_config_set_fixed_auto_vowel(ptr: *mut Config, option: bool);
    fn riti_config_set_fixed_auto_chandra(ptr: *mut Config, option: bool);
    fn riti_config_set_fixed_traditional_kar(ptr: *mut Config, option: bool);
    fn riti_config_set_fixed_old_reph(ptr: *mut Config, option: bool);
    fn riti_config_set_fixed_numpad(ptr: *mut Config, option: bool);
    fn riti_config_set_fixed_old_kar_order(ptr: *mut Config, option: bool);
    fn riti_config_set_ansi_encoding(ptr: *mut Config, option: bool);
    fn riti_config_set_smart_quote(ptr: *mut Config, option: bool);
}

struct Rng(u64);
impl Rng {
    fn next(&mut self) -> u64 {
        let mut x = self.0;
        x ^= x >> 12;
        x ^= x << 25;
        x ^= x >> 27;
        self.0 = x;
        x.wrapping_mul(0x2545_F491_4F6C_DD1D)
    }
    fn below(&mut self, n: usize) -> usize {
        if n == 0 { 0 } else { (self.next() >> 11) as usize % n }
    }
    fn chance(&mut self, a: usize, b: usize) -> bool {
        self.below(b) < a
    }
}

/// What the Rust API says about a suggestion (taken from the very same object).
#[derive(Clone, PartialEq, Debug)]
struct Shadow {
    lonely: bool,
    empty: bool,
    single: Option<String>,
    aux: Option<String>,
    list: Vec<String>,
    sel: Option<usize>,
    pre: Vec<Option<String>>,
}

fn shadow_of(s: &Suggestion, ansi_risky: bool) -> Shadow {
    if s.is_lonely() {
        let t = s.get_lonely_suggestion().to_string();
        let pre = if ansi_risky && t.contains('\u{09C4}') { None } else { Some(s.get_pre_edit_text(0)) };
        Shadow { lonely: true, empty: s.is_empty(), single: Some(t), aux: None, list: vec![], sel: None, pre: vec![pre] }
    } else {
        let list = s.get_suggestions().to_vec();
        let pre = (0..list.len()).map(|i| if ansi_risky && list[i].contains('\u{09C4}') { None } else { Some(s.get_pre_edit_text(i)) }).collect();
        Shadow { lonely: false, empty: s.is_empty(), single: None, aux: Some(s.get_auxiliary_text().to_string()), list, sel: Some(s.previously_selected_index()), pre }
    }
}

struct LiveSugg {
    ptr: *mut Suggestion,
    shadow: Shadow,
    ctx_id: usize,
}
struct LiveStr {
    ptr: *mut c_char,
    bytes: Vec<u8>,
    what: &'static str,
}
struct LiveCtx {
    ptr: *mut RitiContext,
    id: usize,
    fixed: bool,
    ansi: bool,
    /// number of committable indices of the suggestion returned by the last key/backspace (0 = nothing on screen)
    on_screen: usize,
    highlight: usize,
}
struct LiveCfg {
    ptr: *mut Config,
    usable: bool,
    fixed: bool,
    ansi: bool,
}

struct Drv {
    rng: Rng,
    calls: BTreeMap<&'static str, u64>,
    cfgs: Vec<LiveCfg>,
    ctxs: Vec<LiveCtx>,
    suggs: Vec<LiveSugg>,
    strs: Vec<LiveStr>,
    next_ctx: usize,
    mismatches: u64,
    comparisons: u64,
    rechecks_after_parent_moved: u64,
    rechecks_after_parent_freed: u64,
    small: bool,
    layouts: Vec<String>,
    data_dirs: Vec<String>,
    max_live: usize,
    /// path of the user's auto-correct file, and whether this session may edit it (sessions that start with a valid file)
    user_ac: String,
    may_edit_user_file: bool,
    user_file_edits: u64,
}

const KEYS_PH: &[u16] = &[0xA096, 0xA0A2, 0xA09E, 0xA0A8, 0xA09A, 0xA0A0, 0xA0A4, 0xA0A9, 0xA0A7, 0xA0A3, 0x0063, 0x0044, 0x0034, 0x0033, 0x0064, 0x0028, 0x0029, 0x0002, 0x0E1C, 0x0E0D, 0x004F, 0xA0B4, 0xA0C2];
const KEYS_FX: &[u16] = &[0xA0A0, 0xA096, 0xA09E, 0xA0A7, 0x0035, 0xA0AA, 0x001A, 0x001B, 0x0066, 0xA0BF, 0x0064, 0x0028, 0x0034, 0x0063, 0x0044, 0x0027, 0x004F, 0x0053, 0x0E1C, 0xA0A2, 0xA0A9, 0xA0A8, 0x0002];

impl Drv {
    fn edit_user_file(&mut self) {
        const DOCS: [&str; 4] = ["{\"a\":\"amar\",\"ami\":\"tumi\",\"k\":\"kO\"}", "{\"a\":\"ami\",\"m\":\"ma\",\"ami\":\"tomra\",\"i\":\"I\"}", "{\"k\":\"kha\"}", "{}"];
        self.user_file_edits += 1;
        let doc = DOCS[(self.user_file_edits % 4) as usize];
        if std::fs::write(&self.user_ac, doc).is_ok() {
            // (Miri has no futimens: there the time stamp is simply that of the write, which is later than the last one)
            if cfg!(miri) {
                return;
            }
            if let Ok(f) = std::fs::File::options().write(true).open(&self.user_ac) {
                // strictly increasing, whole seconds apart, in the future of every earlier version
                let t = std::time::SystemTime::now() + std::time::Duration::from_secs(10 * self.user_file_edits);
                let _ = f.set_modified(t);
            }
        }
    }
    fn call(&mut self, name: &'static str) {
        *self.calls.entry(name).or_insert(0) += 1;
    }
    fn fail(&mut self, what: String) {
        self.mismatches += 1;
        if self.mismatches <= 20 {
            println!("MISMATCH {what}");
        }
    }

    unsafe fn take_string(&mut self, p: *mut c_char, expected: &str, what: &'static str) {
        self.comparisons += 1;
        if p.is_null() {
            self.fail(format!("{what}: returned NULL, Rust API says {expected:?}"));
            return;
        }
        let bytes = CStr::from_ptr(p).to_bytes().to_vec();
        if bytes != expected.as_bytes() {
            self.fail(format!("{what}: C string {:?} != Rust value {expected:?}", String::from_utf8_lossy(&bytes)));
        }
        if std::str::from_utf8(&bytes).is_err() {
            self.fail(format!("{what}: not valid UTF-8"));
        }
        // keep some strings alive to re-check later (independence from the context / suggestion)
        if self.rng.chance(1, 2) && self.strs.len() < self.max_live {
            self.strs.push(LiveStr { ptr: p, bytes, what });
        } else {
            self.call("riti_string_free");
            riti_string_free(p);
        }
    }

    unsafe fn recheck_string(&mut self, i: usize) {
        let (ptr, what) = (self.strs[i].ptr, self.strs[i].what);
        let now = CStr::from_ptr(ptr).to_bytes().to_vec();
        self.comparisons += 1;
        if now != self.strs[i].bytes {
            self.fail(format!("string from {what} changed after later calls: {:?} -> {:?}", String::from_utf8_lossy(&self.strs[i].bytes), String::from_utf8_lossy(&now)));
        }
    }

    /// Read a suggestion out through every C accessor that is in contract for its variant.
    unsafe fn readout(&mut self, i: usize) {
        let ptr = self.suggs[i].ptr as *const Suggestion;
        let sh = self.suggs[i].shadow.clone();
        self.call("riti_suggestion_is_lonely");
        let lonely = riti_suggestion_is_lonely(ptr);
        self.call("riti_suggestion_is_empty");
        let empty = riti_suggestion_is_empty(ptr);
        self.comparisons += 2;
        if lonely != sh.lonely || empty != sh.empty {
            self.fail(format!("is_lonely/is_empty: C says {lonely}/{empty}, shadow {}/{}", sh.lonely, sh.empty));
            return;
        }
        if lonely {
            self.call("riti_suggestion_get_lonely_suggestion");
            let p = riti_suggestion_get_lonely_suggestion(ptr);
            self.take_string(p, sh.single.as_deref().unwrap_or(""), "riti_suggestion_get_lonely_suggestion");
            if let Some(pre) = &sh.pre[0] {
                self.call("riti_suggestion_get_pre_edit_text");
                let p = riti_suggestion_get_pre_edit_text(ptr, 0);
                self.take_string(p, pre, "riti_suggestion_get_pre_edit_text");
            }
        } else {
            self.call("riti_suggestion_get_length");
            let len = riti_suggestion_get_length(ptr);
            self.call("riti_suggestion_previously_selected_index");
            let sel = riti_suggestion_previously_selected_index(ptr);
            self.comparisons += 2;
            if len != sh.list.len() || Some(sel) != sh.sel {
                self.fail(format!("length/index: C says {len}/{sel}, shadow {}/{:?}", sh.list.len(), sh.sel));
                return;
            }
            self.call("riti_suggestion_get_auxiliary_text");
            let p = riti_suggestion_get_auxiliary_text(ptr);
            self.take_string(p, sh.aux.as_deref().unwrap_or(""), "riti_suggestion_get_auxiliary_text");
            for k in 0..len {
                if len > 4 && self.rng.chance(1, 2) {
                    continue;
                }
                self.call("riti_suggestion_get_suggestion");
                let p = riti_suggestion_get_suggestion(ptr, k);
                self.take_string(p, &sh.list[k], "riti_suggestion_get_suggestion");
                if let Some(pre) = &sh.pre[k] {
                    self.call("riti_suggestion_get_pre_edit_text");
                    let p = riti_suggestion_get_pre_edit_text(ptr, k);
                    self.take_string(p, pre, "riti_suggestion_get_pre_edit_text");
                }
            }
        }
    }

    unsafe fn new_config(&mut self) {
        self.call("riti_config_new");
        let c = riti_config_new();
        let mut cfg = LiveCfg { ptr: c, usable: false, fixed: false, ansi: false };
        // sometimes an invalid path first (must be rejected and leave the config usable afterwards)
        if self.rng.chance(1, 5) {
            let bad = CString::new("/nonexistent/layout.json").unwrap();
            self.call("riti_config_set_layout_file");
            self.comparisons += 1;
            if riti_config_set_layout_file(c, bad.as_ptr()) {
                self.fail("set_layout_file accepted a path that does not exist".into());
            }
            let bad = CString::new("/nonexistent/dir").unwrap();
            self.call("riti_config_set_database_dir");
            self.comparisons += 1;
            if riti_config_set_database_dir(c, bad.as_ptr()) {
                self.fail("set_database_dir accepted a path that does not exist".into());
            }
        }
        let li = self.rng.below(self.layouts.len());
        let l = CString::new(self.layouts[li].clone()).unwrap();
        self.call("riti_config_set_layout_file");
        let ok1 = riti_config_set_layout_file(c, l.as_ptr());
        let di = if self.rng.chance(1, 2) { 0 } else { self.rng.below(self.data_dirs.len()) };
        let d = CString::new(self.data_dirs[di].clone()).unwrap();
        self.call("riti_config_set_database_dir");
        let ok2 = riti_config_set_database_dir(c, d.as_ptr());
        self.comparisons += 2;
        if !ok1 || !ok2 {
            self.fail(format!("valid layout/database path rejected ({ok1}/{ok2})"));
        }
        cfg.fixed = li != 0;
        let sugg_on = if self.small { self.rng.chance(1, 4) } else { self.rng.chance(3, 4) };
        let b = |r: &mut Rng| r.chance(1, 2);
        self.call("riti_config_set_suggestion_include_english");
        riti_config_set_suggestion_include_english(c, b(&mut self.rng));
        self.call("riti_config_set_phonetic_suggestion");
        riti_config_set_phonetic_suggestion(c, sugg_on);
        self.call("riti_config_set_fixed_suggestion");
        riti_config_set_fixed_suggestion(c, sugg_on);
        self.call("riti_config_set_fixed_auto_vowel");
        riti_config_set_fixed_auto_vowel(c, b(&mut self.rng));
        self.call("riti_config_set_fixed_auto_chandra");
        riti_config_set_fixed_auto_chandra(c, b(&mut self.rng));
        self.call("riti_config_set_fixed_traditional_kar");
        riti_config_set_fixed_traditional_kar(c, b(&mut self.rng));
        self.call("riti_config_set_fixed_old_reph");
        riti_config_set_fixed_old_reph(c, b(&mut self.rng));
        self.call("riti_config_set_fixed_numpad");
        riti_config_set_fixed_numpad(c, b(&mut self.rng));
        self.call("riti_config_set_fixed_old_kar_order");
        riti_config_set_fixed_old_kar_order(c, b(&mut self.rng));
        cfg.ansi = self.rng.chance(1, 4);
        self.call("riti_config_set_ansi_encoding");
        riti_config_set_ansi_encoding(c, cfg.ansi);
        self.call("riti_config_set_smart_quote");
        riti_config_set_smart_quote(c, b(&mut self.rng));
        cfg.usable = ok1 && ok2;
        self.cfgs.push(cfg);
    }

    unsafe fn step(&mut self) {
        let r = self.rng.below(100);
        if self.cfgs.is_empty() || (r < 3 && self.cfgs.len() < 4) {
            self.new_config();
            return;
        }
        if self.ctxs.is_empty() || (r < 5 && self.ctxs.len() < if self.small { 2 } else { 4 }) {
            let ci = self.rng.below(self.cfgs.len());
            if !self.cfgs[ci].usable {
                return;
            }
            self.call("riti_context_new_with_config");
            let p = riti_context_new_with_config(self.cfgs[ci].ptr);
            self.next_ctx += 1;
            self.ctxs.push(LiveCtx { ptr: p, id: self.next_ctx, fixed: self.cfgs[ci].fixed, ansi: self.cfgs[ci].ansi, on_screen: 0, highlight: 0 });
            // the config may be freed right away: the context owns a copy
            if self.rng.chance(1, 6) && self.cfgs.len() > 1 {
                let c = self.cfgs.swap_remove(ci);
                self.call("riti_config_free");
                riti_config_free(c.ptr);
            }
            return;
        }
        let xi = self.rng.below(self.ctxs.len());
        match r {
            5..=54 => {
                // key event
                let keys = if self.ctxs[xi].fixed { KEYS_FX } else { KEYS_PH };
                // one key in 24 is a code riti.h does not publish (near the letter blocks, or anywhere): whatever the library
                // makes of it, what it hands out must stay equal to the Rust API's value and be freed with its own size
                let k = if self.rng.chance(1, 24) {
                    if self.rng.chance(1, 2) { 0xA090 + self.rng.below(0x50) as u16 } else { self.rng.below(0x1_0000) as u16 }
                } else {
                    keys[self.rng.below(keys.len())]
                };
                let m = if self.rng.chance(1, 8) { 2 } else { 0 };
                let sel = self.ctxs[xi].highlight.min(255) as u8;
                self.call("riti_get_suggestion_for_key");
                let s = riti_get_suggestion_for_key(self.ctxs[xi].ptr, k, m, sel);
                self.adopt(xi, s);
            }
            55..=62 => {
                let ctrl = self.rng.chance(1, 4);
                self.call("riti_context_backspace_event");
                let s = riti_context_backspace_event(self.ctxs[xi].ptr, ctrl);
                self.adopt(xi, s);
            }
            63..=67 => {
                if self.ctxs[xi].on_screen > 0 {
                    let idx = if self.rng.chance(1, 2) { self.ctxs[xi].highlight.min(self.ctxs[xi].on_screen - 1) } else { self.rng.below(self.ctxs[xi].on_screen) };
                    self.call("riti_context_candidate_committed");
                    riti_context_candidate_committed(self.ctxs[xi].ptr, idx);
                }
            }
            68..=70 => {
                self.call("riti_context_finish_input_session");
                riti_context_finish_input_session(self.ctxs[xi].ptr);
                self.ctxs[xi].on_screen = 0;
                self.ctxs[xi].highlight = 0;
            }
            71..=73 => {
                self.call("riti_context_ongoing_input_session");
                let on = riti_context_ongoing_input_session(self.ctxs[xi].ptr);
                let rust = (*self.ctxs[xi].ptr).ongoing_input_session();
                self.comparisons += 1;
                if on != rust {
                    self.fail(format!("ongoing_input_session: C {on} vs Rust {rust}"));
                }
            }
            74..=75 => {
                // update_engine only while idle
                self.call("riti_context_ongoing_input_session");
                if !riti_context_ongoing_input_session(self.ctxs[xi].ptr) {
                    let ci = self.rng.below(self.cfgs.len());
                    if self.cfgs[ci].usable {
                        // the user edits the auto-correct file in between (newer modification time each time): the
                        // context re-loads it, and what it held before must be released
                        if self.may_edit_user_file && self.rng.chance(1, 2) {
                            self.edit_user_file();
                        }
                        self.call("riti_context_update_engine");
                        riti_context_update_engine(self.ctxs[xi].ptr, self.cfgs[ci].ptr);
                        self.ctxs[xi].fixed = self.cfgs[ci].fixed;
                        self.ctxs[xi].ansi = self.cfgs[ci].ansi;
                        self.ctxs[xi].on_screen = 0;
                        self.ctxs[xi].highlight = 0;
                    }
                }
            }
            76..=83 => {
                if !self.suggs.is_empty() {
                    let i = self.rng.below(self.suggs.len());
                    // a read-out possibly long after the context moved on
                    let alive = self.ctxs.iter().any(|c| c.id == self.suggs[i].ctx_id);
                    if alive {
                        self.rechecks_after_parent_moved += 1;
                    } else {
                        self.rechecks_after_parent_freed += 1;
                    }
                    // the Rust-level view of the same object must not have changed either
                    let now = shadow_of(&*self.suggs[i].ptr, true);
                    self.comparisons += 1;
                    if now != self.suggs[i].shadow {
                        self.fail(format!("suggestion changed after later calls: {:?} -> {now:?}", self.suggs[i].shadow));
                    }
                    self.readout(i);
                }
            }
            84..=88 => {
                if !self.suggs.is_empty() {
                    let i = self.rng.below(self.suggs.len());
                    let s = self.suggs.swap_remove(i);
                    self.call("riti_suggestion_free");
                    riti_suggestion_free(s.ptr);
                }
            }
            89..=92 => {
                if !self.strs.is_empty() {
                    let i = self.rng.below(self.strs.len());
                    self.recheck_string(i);
                    if self.rng.chance(2, 3) {
                        let s = self.strs.swap_remove(i);
                        self.call("riti_string_free");
                        riti_string_free(s.ptr);
                    }
                }
            }
            93 => {
                self.call("riti_string_free(NULL)");
                riti_string_free(std::ptr::null_mut());
            }
            94..=95 => {
                if self.ctxs.len() > 1 || self.rng.chance(1, 3) {
                    let c = self.ctxs.swap_remove(xi);
                    self.call("riti_context_free");
                    riti_context_free(c.ptr);
                }
            }
            96 => {
                if self.cfgs.len() > 1 {
                    let ci = self.rng.below(self.cfgs.len());
                    let c = self.cfgs.swap_remove(ci);
                    self.call("riti_config_free");
                    riti_config_free(c.ptr);
                }
            }
            _ => {
                // null frees are no-ops
                self.call("riti_suggestion_free(NULL)");
                riti_suggestion_free(std::ptr::null_mut());
                self.call("riti_context_free(NULL)");
                riti_context_free(std::ptr::null_mut());
                self.call("riti_config_free(NULL)");
                riti_config_free(std::ptr::null_mut());
            }
        }
    }

    unsafe fn adopt(&mut self, xi: usize, s: *mut Suggestion) {
        if s.is_null() {
            self.fail("a suggestion pointer is NULL".into());
            return;
        }
        let sh = shadow_of(&*s, true);
        self.ctxs[xi].on_screen = if sh.lonely { usize::from(!sh.empty) } else { sh.list.len() };
        self.ctxs[xi].highlight = sh.sel.unwrap_or(0).min(self.ctxs[xi].on_screen.saturating_sub(1));
        let id = self.ctxs[xi].id;
        self.suggs.push(LiveSugg { ptr: s, shadow: sh, ctx_id: id });
        let i = self.suggs.len() - 1;
        if self.rng.chance(2, 3) {
            self.readout(i);
        }
        while self.suggs.len() > self.max_live {
            let k = self.rng.below(self.suggs.len());
            let s = self.suggs.swap_remove(k);
            self.call("riti_suggestion_free");
            riti_suggestion_free(s.ptr);
        }
    }

    unsafe fn teardown(&mut self, contexts_first: bool) {
        if contexts_first {
            for c in std::mem::take(&mut self.ctxs) {
                self.call("riti_context_free");
                riti_context_free(c.ptr);
            }
            for c in std::mem::take(&mut self.cfgs) {
                self.call("riti_config_free");
                riti_config_free(c.ptr);
            }
        }
        // suggestions and strings outlive their context: read them once more, then free
        for i in 0..self.suggs.len() {
            let now = shadow_of(&*self.suggs[i].ptr, true);
            self.comparisons += 1;
            if now != self.suggs[i].shadow {
                self.fail("suggestion changed after its context was freed".into());
            }
            if contexts_first {
                self.rechecks_after_parent_freed += 1;
            }
            self.readout(i);
        }
        for s in std::mem::take(&mut self.suggs) {
            self.call("riti_suggestion_free");
            riti_suggestion_free(s.ptr);
        }
        for i in 0..self.strs.len() {
            self.recheck_string(i);
        }
        for s in std::mem::take(&mut self.strs) {
            self.call("riti_string_free");
            riti_string_free(s.ptr);
        }
        for c in std::mem::take(&mut self.ctxs) {
            self.call("riti_context_free");
            riti_context_free(c.ptr);
        }
        for c in std::mem::take(&mut self.cfgs) {
            self.call("riti_config_free");
            riti_config_free(c.ptr);
        }
    }
}

/// Every option setter of the C interface must take effect: two configurations that differ in one option only, set
/// through the C setters, two contexts, the same keys - what the C accessors hand out must differ. (The shadow copies of
/// the driver are taken from the same objects, so a setter that silently does nothing would otherwise go unnoticed.)
unsafe fn setter_probes(d: &mut Drv) {
    const K: u16 = 41120; const A: u16 = 41110; const I: u16 = 41118; const U: u16 = 41130; const R: u16 = 41127;
    const GT: u16 = 102; const QUOTE: u16 = 100; const KP1: u16 = 79;
    // (setter name, layout index, options that are on in both configurations, keys)
    let probes: [(&'static str, usize, &[&'static str], &[(u16, u8)]); 11] = [
        ("phonetic_suggestion", 0, &[], &[(A, 0)]),
        ("suggestion_include_english", 0, &["phonetic_suggestion"], &[(A, 0)]),
        ("smart_quote", 0, &["phonetic_suggestion"], &[(QUOTE, 0), (A, 0)]),
        ("ansi_encoding", 0, &[], &[(K, 0)]),
        ("fixed_suggestion", 1, &[], &[(K, 0)]),
        ("fixed_auto_vowel", 1, &[], &[(A, 0)]),
        ("fixed_auto_chandra", 1, &[], &[(K, 0), (GT, 0), (A, 0)]),
        ("fixed_traditional_kar", 1, &[], &[(K, 0), (U, 0)]),
        ("fixed_old_reph", 2, &[], &[(K, 0), (A, 0), (R, 2)]),
        ("fixed_numpad", 1, &[], &[(KP1, 0)]),
        ("fixed_old_kar_order", 1, &[], &[(I, 0)]),
    ];
    let set = |d: &mut Drv, c: *mut Config, name: &str, on: bool| match name {
        "phonetic_suggestion" => { d.call("riti_config_set_phonetic_suggestion"); riti_config_set_phonetic_suggestion(c, on) }
        "suggestion_include_english" => { d.call("riti_config_set_suggestion_include_english"); riti_config_set_suggestion_include_english(c, on) }
        "smart_quote" => { d.call("riti_config_set_smart_quote"); riti_config_set_smart_quote(c, on) }
        "ansi_encoding" => { d.call("riti_config_set_ansi_encoding"); riti_config_set_ansi_encoding(c, on) }
        "fixed_suggestion" => { d.call("riti_config_set_fixed_suggestion"); riti_config_set_fixed_suggestion(c, on) }
        "fixed_auto_vowel" => { d.call("riti_config_set_fixed_auto_vowel"); riti_config_set_fixed_auto_vowel(c, on) }
        "fixed_auto_chandra" => { d.call("riti_config_set_fixed_auto_chandra"); riti_config_set_fixed_auto_chandra(c, on) }
        "fixed_traditional_kar" => { d.call("riti_config_set_fixed_traditional_kar"); riti_config_set_fixed_traditional_kar(c, on) }
        "fixed_old_reph" => { d.call("riti_config_set_fixed_old_reph"); riti_config_set_fixed_old_reph(c, on) }
        "fixed_numpad" => { d.call("riti_config_set_fixed_numpad"); riti_config_set_fixed_numpad(c, on) }
        _ => { d.call("riti_config_set_fixed_old_kar_order"); riti_config_set_fixed_old_kar_order(c, on) }
    };
    const ALL: [&str; 11] = ["phonetic_suggestion", "suggestion_include_english", "smart_quote", "ansi_encoding", "fixed_suggestion", "fixed_auto_vowel", "fixed_auto_chandra",
        "fixed_traditional_kar", "fixed_old_reph", "fixed_numpad", "fixed_old_kar_order"];
    for (name, li, base_on, keys) in probes {
        let mut seen: Vec<String> = vec![];
        for on in [false, true] {
            d.call("riti_config_new");
            let c = riti_config_new();
            let l = CString::new(d.layouts[li].clone()).unwrap();
            d.call("riti_config_set_layout_file");
            riti_config_set_layout_file(c, l.as_ptr());
            let dd = CString::new(d.data_dirs[0].clone()).unwrap();
            d.call("riti_config_set_database_dir");
            riti_config_set_database_dir(c, dd.as_ptr());
            // every option is set explicitly (defaults do not matter); the probed one last
            for o in ALL {
                if o != name {
                    set(d, c, o, base_on.contains(&o));
                }
            }
            set(d, c, name, on);
            d.call("riti_context_new_with_config");
            let ctx = riti_context_new_with_config(c);
            let mut shown = String::new();
            for &(k, m) in keys {
                d.call("riti_get_suggestion_for_key");
                let s = riti_get_suggestion_for_key(ctx, k, m, 0);
                let sh = shadow_of(&*s, true);
                shown = format!("{:?}|{:?}|{:?}|{:?}", sh.lonely, sh.single, sh.list, sh.pre);
                d.call("riti_suggestion_free");
                riti_suggestion_free(s);
            }
            d.call("riti_context_free");
            riti_context_free(ctx);
            d.call("riti_config_free");
            riti_config_free(c);
            seen.push(shown);
        }
        d.comparisons += 1;
        if seen[0] == seen[1] {
            d.fail(format!("riti_config_set_{name}: the option has no effect ({} with it off and on)", seen[0]));
        }
    }
}

/// Deterministic pass over every accessor x suggestion variant x ANSI on/off (sized for Miri): the paths on which strings
/// and suggestions cross the boundary are all taken at least once, whatever the random sessions happen to draw.
unsafe fn scripted(d: &mut Drv) {
    // (layout index, suggestions, ansi, old vowel-sign order)
    let all: [(usize, bool, bool, bool); 6] = [(0, false, true, false), (0, false, false, false), (1, false, true, true), (1, true, true, true), (0, true, true, false), (1, true, false, true)];
    // under Miri every key event with suggestions costs tens of seconds (regex compilation is interpreted):
    // the small mode keeps the three suggestions-off set-ups and one short suggestions-on word
    let setups: &[(usize, bool, bool, bool)] = if d.small { &all[..std::env::var("FFIDRV_SETUPS").ok().and_then(|s| s.parse().ok()).unwrap_or(4)] } else { &all[..] };
    let mut scripted_ctx: Option<*mut RitiContext> = None;
    for &(li, sugg, ansi, karorder) in setups {
        d.call("riti_config_new");
        let c = riti_config_new();
        let l = CString::new(d.layouts[li].clone()).unwrap();
        d.call("riti_config_set_layout_file");
        riti_config_set_layout_file(c, l.as_ptr());
        let dd = CString::new(d.data_dirs[0].clone()).unwrap();
        d.call("riti_config_set_database_dir");
        riti_config_set_database_dir(c, dd.as_ptr());
        d.call("riti_config_set_phonetic_suggestion");
        riti_config_set_phonetic_suggestion(c, sugg);
        d.call("riti_config_set_fixed_suggestion");
        riti_config_set_fixed_suggestion(c, sugg);
        d.call("riti_config_set_ansi_encoding");
        riti_config_set_ansi_encoding(c, ansi);
        d.call("riti_config_set_fixed_old_kar_order");
        riti_config_set_fixed_old_kar_order(c, karorder);
        d.call("riti_config_set_suggestion_include_english");
        riti_config_set_suggestion_include_english(c, true);
        // one context for the whole pass (creating a context is the expensive part under Miri: the emoji tables and the
        // parsers are built by interpreted code); the other set-ups are reached by update_engine while idle
        let ctx = match scripted_ctx {
            None => {
                d.call("riti_context_new_with_config");
                let ctx = riti_context_new_with_config(c);
                d.next_ctx += 1;
                d.ctxs.push(LiveCtx { ptr: ctx, id: d.next_ctx, fixed: li != 0, ansi, on_screen: 0, highlight: 0 });
                scripted_ctx = Some(ctx);
                ctx
            }
            Some(ctx) => {
                d.call("riti_context_update_engine");
                riti_context_update_engine(ctx, c);
                let xi = d.ctxs.iter().position(|x| x.ptr == ctx).unwrap();
                d.ctxs[xi].fixed = li != 0;
                d.ctxs[xi].ansi = ansi;
                d.ctxs[xi].on_screen = 0;
                d.ctxs[xi].highlight = 0;
                ctx
            }
        };
        d.cfgs.push(LiveCfg { ptr: c, usable: true, fixed: li != 0, ansi });
        let xi = d.ctxs.iter().position(|x| x.ptr == ctx).unwrap();
        // words chosen so that the pre-edit text differs in length from the candidate under ANSI (e-kar, conjuncts, ASCII),
        // a left-standing sign first (empty auxiliary text while it is pending), punctuation, and a backspace to empty
        // (the third word is a, m, i: keys of the user's auto-correct file)
        let words: [&[u16]; 5] = [&[0xA0A0, 0xA09A], &[0xA09E, 0xA0A0], &[0xA096, 0xA0A2, 0xA09E], &[0x0034], &[0xA0A0, 0x0035, 0xA0A0, 0x001A]];
        let nwords = if d.small && sugg { 1 } else { words.len() };
        for w in words.iter().take(nwords) {
            // with suggestions on in small mode: only the left-standing sign first (empty auxiliary text) and one more key
            let w: &[u16] = if d.small && sugg { &[0xA09E, 0xA0A0] } else { w };
            for &k in w {
                d.call("riti_get_suggestion_for_key");
                let s = riti_get_suggestion_for_key(ctx, k, 0, 0);
                d.adopt(xi, s);
                let i = d.suggs.len() - 1;
                d.readout(i);
            }
            d.call("riti_context_backspace_event");
            let s = riti_context_backspace_event(ctx, false);
            d.adopt(xi, s);
            d.call("riti_context_finish_input_session");
            riti_context_finish_input_session(ctx);
            d.ctxs[xi].on_screen = 0;
        }
        // free every string taken so far now (each with the length the library gave it)
        for st in std::mem::take(&mut d.strs) {
            d.call("riti_string_free");
            riti_string_free(st.ptr);
        }
    }
    // Composition-helper battery: the fixed method rearranges the composed text in place (old-style reph goes in front of
    // the final conjunct, left-standing signs wait for their consonant, joiners are inserted). Every helper is on, the
    // synthetic layout supplies the reph / ro-fola / zo-fola keys on the AltGr plane, and every text that crosses the
    // boundary is read out: a rearrangement that cuts a text at a byte position which is not a character boundary shows
    // as a string that is not UTF-8, and under Miri / ASan as the invalid access itself.
    if let Some(ctx) = scripted_ctx {
        let variants: &[(bool, bool)] = if d.small { &[(false, false)] } else { &[(false, false), (true, false), (false, true), (true, true)] };
        for &(sugg, ansi) in variants {
            d.call("riti_config_new");
            let c = riti_config_new();
            let l = CString::new(d.layouts[2].clone()).unwrap();
            d.call("riti_config_set_layout_file");
            riti_config_set_layout_file(c, l.as_ptr());
            let dd = CString::new(d.data_dirs[0].clone()).unwrap();
            d.call("riti_config_set_database_dir");
            riti_config_set_database_dir(c, dd.as_ptr());
            d.call("riti_config_set_fixed_suggestion");
            riti_config_set_fixed_suggestion(c, sugg);
            d.call("riti_config_set_ansi_encoding");
            riti_config_set_ansi_encoding(c, ansi);
            d.call("riti_config_set_fixed_old_reph");
            riti_config_set_fixed_old_reph(c, true);
            d.call("riti_config_set_fixed_old_kar_order");
            riti_config_set_fixed_old_kar_order(c, true);
            d.call("riti_config_set_fixed_traditional_kar");
            riti_config_set_fixed_traditional_kar(c, true);
            d.call("riti_config_set_fixed_auto_vowel");
            riti_config_set_fixed_auto_vowel(c, true);
            d.call("riti_config_set_fixed_auto_chandra");
            riti_config_set_fixed_auto_chandra(c, true);
            d.call("riti_context_update_engine");
            riti_context_update_engine(ctx, c);
            let xi = d.ctxs.iter().position(|x| x.ptr == ctx).unwrap();
            d.ctxs[xi].fixed = true;
            d.ctxs[xi].ansi = ansi;
            d.ctxs[xi].on_screen = 0;
            d.ctxs[xi].highlight = 0;
            d.cfgs.push(LiveCfg { ptr: c, usable: true, fixed: true, ansi });
            // keys of layouts/verif.json: k ক, f ত, r র, a া, i ি, [ ে, / hasanta, > chandrabindu, - an ASCII mark;
            // AltGr (modifier 2): r reph, x ro-fola, z zo-fola
            const K: u16 = 41120; const F: u16 = 41115; const R: u16 = 41127; const A: u16 = 41110; const I: u16 = 41118;
            const X: u16 = 41133; const Z: u16 = 41135; const SLASH: u16 = 53; const MINUS: u16 = 12; const BRL: u16 = 26; const GT: u16 = 102;
            let words: [&[(u16, u8)]; 8] = [
                &[(K, 0), (SLASH, 0), (MINUS, 0), (K, 0), (R, 2)],
                &[(R, 2), (K, 0)],
                &[(K, 0), (A, 0), (R, 2)],
                &[(I, 0), (K, 0), (X, 2), (R, 2)],
                &[(K, 0), (SLASH, 0), (F, 0), (Z, 2), (A, 0), (GT, 0), (R, 2)],
                &[(BRL, 0), (K, 0), (A, 0), (R, 2)],
                &[(R, 0), (Z, 2), (I, 0)],
                &[(MINUS, 0), (A, 0), (K, 0), (SLASH, 0), (SLASH, 0), (K, 0), (R, 2), (MINUS, 0)],
            ];
            for w in words.iter() {
                for &(k, m) in w.iter() {
                    d.call("riti_get_suggestion_for_key");
                    let s = riti_get_suggestion_for_key(ctx, k, m, 0);
                    d.adopt(xi, s);
                    let i = d.suggs.len() - 1;
                    d.readout(i);
                }
                d.call("riti_context_backspace_event");
                let s = riti_context_backspace_event(ctx, false);
                d.adopt(xi, s);
                let i = d.suggs.len() - 1;
                d.readout(i);
                d.call("riti_context_finish_input_session");
                riti_context_finish_input_session(ctx);
                d.ctxs[xi].on_screen = 0;
            }
            for st in std::mem::take(&mut d.strs) {
                d.call("riti_string_free");
                riti_string_free(st.ptr);
            }
        }
    }
    // the re-load path of the user's auto-correct file: phonetic method, the file edited (newer time stamp), update_engine
    // on the idle context, twice; then a word whose key is in the file
    if let Some(ctx) = scripted_ctx {
        d.call("riti_config_new");
        let c = riti_config_new();
        let l = CString::new(d.layouts[0].clone()).unwrap();
        d.call("riti_config_set_layout_file");
        riti_config_set_layout_file(c, l.as_ptr());
        let dd = CString::new(d.data_dirs[0].clone()).unwrap();
        d.call("riti_config_set_database_dir");
        riti_config_set_database_dir(c, dd.as_ptr());
        d.call("riti_config_set_phonetic_suggestion");
        riti_config_set_phonetic_suggestion(c, false);
        let xi = d.ctxs.iter().position(|x| x.ptr == ctx).unwrap();
        for round in 0..3 {
            if round > 0 {
                d.edit_user_file();
            }
            d.call("riti_context_update_engine");
            riti_context_update_engine(ctx, c);
            d.ctxs[xi].fixed = false;
            d.ctxs[xi].ansi = false;
            d.ctxs[xi].on_screen = 0;
            d.ctxs[xi].highlight = 0;
        }
        d.cfgs.push(LiveCfg { ptr: c, usable: true, fixed: false, ansi: false });
        for k in [0xA096u16, 0xA0A2] {
            d.call("riti_get_suggestion_for_key");
            let s = riti_get_suggestion_for_key(ctx, k, 0, 0);
            d.adopt(xi, s);
            let i = d.suggs.len() - 1;
            d.readout(i);
        }
        d.call("riti_context_finish_input_session");
        riti_context_finish_input_session(ctx);
        d.ctxs[xi].on_screen = 0;
        for st in std::mem::take(&mut d.strs) {
            d.call("riti_string_free");
            riti_string_free(st.ptr);
        }
    }
    // a second context over another database directory while the first one is alive: both keep working on their own data
    // (under Miri a second context costs about a minute: only when asked for - the thorough tier does)
    if d.small && std::env::var("FFIDRV_SECOND_CTX").is_err() {
        return;
    }
    if let Some(first) = scripted_ctx {
        d.call("riti_config_new");
        let c = riti_config_new();
        let l = CString::new(d.layouts[0].clone()).unwrap();
        d.call("riti_config_set_layout_file");
        riti_config_set_layout_file(c, l.as_ptr());
        let dd = CString::new(d.data_dirs[1].clone()).unwrap();
        d.call("riti_config_set_database_dir");
        riti_config_set_database_dir(c, dd.as_ptr());
        d.call("riti_config_set_phonetic_suggestion");
        riti_config_set_phonetic_suggestion(c, false);
        d.call("riti_context_new_with_config");
        let second = riti_context_new_with_config(c);
        d.next_ctx += 1;
        d.ctxs.push(LiveCtx { ptr: second, id: d.next_ctx, fixed: false, ansi: false, on_screen: 0, highlight: 0 });
        d.cfgs.push(LiveCfg { ptr: c, usable: true, fixed: false, ansi: false });
        for ctx in [first, second, first] {
            let xi = d.ctxs.iter().position(|x| x.ptr == ctx).unwrap();
            for k in [0xA0A0u16, 0xA096] {
                d.call("riti_get_suggestion_for_key");
                let s = riti_get_suggestion_for_key(ctx, k, 0, 0);
                d.adopt(xi, s);
                let i = d.suggs.len() - 1;
                d.readout(i);
            }
            d.call("riti_context_finish_input_session");
            riti_context_finish_input_session(ctx);
            d.ctxs[xi].on_screen = 0;
        }
        for st in std::mem::take(&mut d.strs) {
            d.call("riti_string_free");
            riti_string_free(st.ptr);
        }
    }
}

fn main() {
    let a: Vec<String> = std::env::args().collect();
    if a.len() < 5 {
        eprintln!("usage: ffidrv <seed> <calls> <full|small> <scratch-root> [sessions]");
        std::process::exit(64);
    }
    let seed: u64 = a[1].parse().unwrap();
    let calls: u64 = a[2].parse().unwrap();
    let small = a[3] == "small";
    let root = a[4].clone();
    let sessions: u64 = a.get(5).and_then(|s| s.parse().ok()).unwrap_or(1);
    std::fs::create_dir_all(format!("{root}/openbangla-keyboard")).expect("scratch");
    std::env::set_var("XDG_DATA_HOME", &root);
    // several database directories in one process: every context must keep using its own
    let data_dirs: Vec<String> = if small { vec!["/verif/data_small".to_string(), "/verif/data_small2".to_string()] } else { vec!["/repo/data".to_string(), "/verif/data_small".to_string(), "/verif/data_small2".to_string()] };
    let layouts = vec!["avro_phonetic".to_string(), "/repo/data/Probhat.json".to_string(), "/verif/layouts/verif.json".to_string()];
    let mut total: BTreeMap<&'static str, u64> = BTreeMap::new();
    let (mut mism, mut comps, mut moved, mut freed) = (0, 0, 0, 0);
    for s in 0..sessions {
        // the user's auto-correct file: in a third of the sessions a well-formed JSON document whose replacements are not UTF-8
        // (to be ignored as damaged - nothing of it may reach a returned string), in a third a valid one
        // (a third of the sessions: a valid document whose replacements contain U+0000, written as the JSON escape - a C
        // string cannot carry it, so whatever the library makes of such an entry, what it hands out must still equal what
        // the Rust API reports for the same object, and be freed with the size it was allocated with)
        let ac: &[u8] = match s % 3 {
            0 => b"{\"a\":\"caf\xE9\",\"m\":\"t\xFFmar\",\"am\":\"\xC3\x28\",\"ami\":\"x\xE9\",\"k\":\"\xFF\"}",
            1 => b"{\"a\":\"ka\\u0000la\",\"k\":\"\\u0000\",\"m\":\"a\\u0000\",\"ami\":\"\\u0000i\",\"i\":\"i\"}",
            _ => b"{\"a\":\"amar\",\"ami\":\"tumi\",\"k\":\"kO\"}",
        };
        std::fs::write(format!("{root}/openbangla-keyboard/autocorrect.json"), ac).expect("user file");
        let mut d = Drv {
            rng: Rng((seed.wrapping_mul(0x9E37_79B9_7F4A_7C15) ^ (s + 1).wrapping_mul(0xD1B5_4A32_D192_ED03)) | 1),
            calls: BTreeMap::new(),
            cfgs: vec![],
            ctxs: vec![],
            suggs: vec![],
            strs: vec![],
            next_ctx: 0,
            mismatches: 0,
            comparisons: 0,
            rechecks_after_parent_moved: 0,
            rechecks_after_parent_freed: 0,
            small,
            layouts: layouts.clone(),
            data_dirs: data_dirs.clone(),
            max_live: if small { 6 } else { 24 },
            user_ac: format!("{root}/openbangla-keyboard/autocorrect.json"),
            may_edit_user_file: s % 3 == 2 || (small && sessions == 1),
            user_file_edits: 0,
        };
        unsafe {
            if s == 0 && a.iter().any(|x| x == "scripted") {
                if !small {
                    setter_probes(&mut d);
                }
                scripted(&mut d);
            }
            let mut n = 0u64;
            while d.calls.values().sum::<u64>() < calls && n < calls * 4 {
                d.step();
                n += 1;
            }
            d.teardown(s % 2 == 0);
        }
        for (k, v) in &d.calls {
            *total.entry(k).or_insert(0) += v;
        }
        mism += d.mismatches;
        comps += d.comparisons;
        moved += d.rechecks_after_parent_moved;
        freed += d.rechecks_after_parent_freed;
    }
    let calls_json: Vec<String> = total.iter().map(|(k, v)| format!("\"{k}\":{v}")).collect();
    println!("{{\"ffidrv\":true,\"seed\":{seed},\"sessions\":{sessions},\"mismatches\":{mism},\"comparisons\":{comps},\"readouts_after_context_moved_on\":{moved},\"readouts_after_context_freed\":{freed},\"calls\":{{{}}}}}", calls_json.join(","));
    std::process::exit(if mism > 0 { 1 } else { 0 });
}
