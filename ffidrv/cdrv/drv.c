/* C19: driver written against include/riti.h only, linked with libriti.a, run under valgrind memcheck.
 * This is the engine that checks the header against the ABI.
 * usage: drv <seed> <events> <scratch-root>
 * exit 0 = consistent, 1 = a read-out disagreed with an earlier read-out of the same object / malformed string. */
#include "riti.h"
#include <stdio.h>
#include <stdlib.h>
#include <string.h>

static unsigned long long rng_state;
static unsigned long long rnd(void) {
    unsigned long long x = rng_state;
    x ^= x >> 12; x ^= x << 25; x ^= x >> 27;
    rng_state = x;
    return x * 0x2545F4914F6CDD1DULL;
}
static size_t below(size_t n) { return n ? (size_t)((rnd() >> 11) % n) : 0; }

static unsigned long calls[40];
enum { F_CFG_NEW, F_CFG_FREE, F_LAYOUT, F_DBDIR, F_ENG, F_PSUGG, F_FSUGG, F_VOWEL, F_CHANDRA, F_TKAR, F_REPH, F_NUMPAD, F_KARORDER, F_ANSI, F_SQ,
       F_CTX_NEW, F_CTX_FREE, F_KEY, F_COMMIT, F_UPDATE, F_ONGOING, F_FINISH, F_BS, F_SUGG_FREE, F_GET, F_LONELY, F_AUX, F_PRE, F_STR_FREE, F_SEL, F_LEN, F_IS_LONELY, F_IS_EMPTY, F_N };
static const char *names[F_N] = { "riti_config_new", "riti_config_free", "riti_config_set_layout_file", "riti_config_set_database_dir", "riti_config_set_suggestion_include_english",
    "riti_config_set_phonetic_suggestion", "riti_config_set_fixed_suggestion", "riti_config_set_fixed_auto_vowel", "riti_config_set_fixed_auto_chandra", "riti_config_set_fixed_traditional_kar",
    "riti_config_set_fixed_old_reph", "riti_config_set_fixed_numpad", "riti_config_set_fixed_old_kar_order", "riti_config_set_ansi_encoding", "riti_config_set_smart_quote",
    "riti_context_new_with_config", "riti_context_free", "riti_get_suggestion_for_key", "riti_context_candidate_committed", "riti_context_update_engine", "riti_context_ongoing_input_session",
    "riti_context_finish_input_session", "riti_context_backspace_event", "riti_suggestion_free", "riti_suggestion_get_suggestion", "riti_suggestion_get_lonely_suggestion",
    "riti_suggestion_get_auxiliary_text", "riti_suggestion_get_pre_edit_text", "riti_string_free", "riti_suggestion_previously_selected_index", "riti_suggestion_get_length",
    "riti_suggestion_is_lonely", "riti_suggestion_is_empty" };

static int failures = 0;
static unsigned long comparisons = 0;
static void fail(const char *what, const char *a, const char *b) {
    failures++;
    if (failures < 20) printf("MISMATCH %s: [%s] vs [%s]\n", what, a ? a : "(null)", b ? b : "(null)");
}

/* strict UTF-8 validation up to the terminating NUL */
static int valid_utf8(const unsigned char *s) {
    while (*s) {
        if (*s < 0x80) { s++; continue; }
        int n = (*s >= 0xF0 && *s <= 0xF4) ? 3 : (*s >= 0xE0) ? 2 : (*s >= 0xC2 && *s < 0xE0) ? 1 : -1;
        if (n < 0) return 0;
        s++;
        for (int i = 0; i < n; i++, s++) if ((*s & 0xC0) != 0x80) return 0;
    }
    return 1;
}

static char *copy(const char *s) { size_t n = strlen(s) + 1; char *c = malloc(n); memcpy(c, s, n); return c; }

/* a snapshot of everything a suggestion says, taken through the C accessors */
typedef struct { int lonely, empty; size_t len, sel; char *aux; char **cand; char **pre; char *single; } Snap;

static char *take(char *p, int which) {
    comparisons++;
    if (!p) { fail(names[which], "NULL returned", ""); return copy(""); }
    if (!valid_utf8((const unsigned char *)p)) fail(names[which], "invalid UTF-8", p);
    char *c = copy(p);
    calls[F_STR_FREE]++;
    riti_string_free(p);
    return c;
}

static Snap snap(const Suggestion *s, int ansi) {
    Snap n; memset(&n, 0, sizeof n);
    calls[F_IS_LONELY]++; n.lonely = riti_suggestion_is_lonely(s);
    calls[F_IS_EMPTY]++; n.empty = riti_suggestion_is_empty(s);
    if (n.lonely) {
        calls[F_LONELY]++; n.single = take(riti_suggestion_get_lonely_suggestion(s), F_LONELY);
        n.pre = calloc(1, sizeof(char *));
        /* U+09C4 makes the third-party ANSI encoder panic (known finding); the driver never types it */
        calls[F_PRE]++; n.pre[0] = take(riti_suggestion_get_pre_edit_text(s, 0), F_PRE);
        if (!ansi && strcmp(n.pre[0], n.single)) fail("pre-edit text != single string without ANSI", n.pre[0], n.single);
    } else {
        calls[F_LEN]++; n.len = riti_suggestion_get_length(s);
        calls[F_SEL]++; n.sel = riti_suggestion_previously_selected_index(s);
        calls[F_AUX]++; n.aux = take(riti_suggestion_get_auxiliary_text(s), F_AUX);
        n.cand = calloc(n.len ? n.len : 1, sizeof(char *));
        n.pre = calloc(n.len ? n.len : 1, sizeof(char *));
        for (size_t i = 0; i < n.len; i++) {
            calls[F_GET]++; n.cand[i] = take(riti_suggestion_get_suggestion(s, i), F_GET);
            calls[F_PRE]++; n.pre[i] = take(riti_suggestion_get_pre_edit_text(s, i), F_PRE);
            if (!ansi && strcmp(n.pre[i], n.cand[i])) fail("pre-edit text != candidate without ANSI", n.pre[i], n.cand[i]);
        }
    }
    return n;
}
static void snap_free(Snap *n) {
    free(n->aux); free(n->single);
    for (size_t i = 0; i < n->len; i++) { free(n->cand[i]); free(n->pre[i]); }
    if (n->lonely && n->pre) free(n->pre[0]);
    free(n->cand); free(n->pre);
}
static void snap_cmp(const Snap *a, const Snap *b, const char *when) {
    comparisons++;
    if (a->lonely != b->lonely || a->empty != b->empty || a->len != b->len || a->sel != b->sel) { fail(when, "shape changed", ""); return; }
    if (a->lonely) { if (strcmp(a->single, b->single) || strcmp(a->pre[0], b->pre[0])) fail(when, a->single, b->single); return; }
    if (strcmp(a->aux, b->aux)) fail(when, a->aux, b->aux);
    for (size_t i = 0; i < a->len; i++) if (strcmp(a->cand[i], b->cand[i]) || strcmp(a->pre[i], b->pre[i])) fail(when, a->cand[i], b->cand[i]);
}

#define KEEP 6
typedef struct { Suggestion *s; Snap first; int ansi; } Kept;

static const uint16_t keys_ph[] = { VC_A, VC_M, VC_I, VC_S, VC_E, VC_K, VC_O, VC_T, VC_R, VC_N, VC_COLON, VC_PAREN_RIGHT, VC_PERIOD, VC_COMMA, VC_QUOTE, VC_APOSTROPHE, VC_GRAVE, VC_1, VC_KP_ENTER, VC_KP_EQUALS, VC_KP_1, VC_A_SHIFT, VC_O_SHIFT };
static const uint16_t keys_fx[] = { VC_K, VC_A, VC_I, VC_R, VC_SLASH, VC_U, VC_BRACKET_LEFT, VC_BRACKET_RIGHT, VC_GREATER, VC_L_SHIFT, VC_QUOTE, VC_APOSTROPHE, VC_PERIOD, VC_COLON, VC_PAREN_RIGHT, VC_SEMICOLON, VC_KP_1, VC_KP_DECIMAL, VC_KP_ENTER, VC_M, VC_T, VC_S, VC_1 };

static Config *make_config(int layout, int *ansi, int sugg) {
    static const char *layouts[] = { "avro_phonetic", "/repo/data/Probhat.json", "/verif/layouts/verif.json" };
    calls[F_CFG_NEW]++; Config *c = riti_config_new();
    calls[F_LAYOUT]++; if (riti_config_set_layout_file(c, "/nonexistent/x.json")) fail("set_layout_file accepted a missing path", "", "");
    calls[F_LAYOUT]++; if (!riti_config_set_layout_file(c, layouts[layout])) fail("set_layout_file rejected", layouts[layout], "");
    calls[F_DBDIR]++; if (riti_config_set_database_dir(c, "/nonexistent")) fail("set_database_dir accepted a missing path", "", "");
    calls[F_DBDIR]++; if (!riti_config_set_database_dir(c, "/repo/data")) fail("set_database_dir rejected /repo/data", "", "");
    *ansi = below(4) == 0;
    calls[F_ENG]++; riti_config_set_suggestion_include_english(c, below(2));
    calls[F_PSUGG]++; riti_config_set_phonetic_suggestion(c, sugg);
    calls[F_FSUGG]++; riti_config_set_fixed_suggestion(c, sugg);
    calls[F_VOWEL]++; riti_config_set_fixed_auto_vowel(c, below(2));
    calls[F_CHANDRA]++; riti_config_set_fixed_auto_chandra(c, below(2));
    calls[F_TKAR]++; riti_config_set_fixed_traditional_kar(c, below(2));
    calls[F_REPH]++; riti_config_set_fixed_old_reph(c, below(2));
    calls[F_NUMPAD]++; riti_config_set_fixed_numpad(c, below(2));
    calls[F_KARORDER]++; riti_config_set_fixed_old_kar_order(c, below(2));
    calls[F_ANSI]++; riti_config_set_ansi_encoding(c, *ansi);
    calls[F_SQ]++; riti_config_set_smart_quote(c, below(2));
    return c;
}

int main(int argc, char **argv) {
    if (argc < 4) { fprintf(stderr, "usage: drv <seed> <events> <scratch-root>\n"); return 64; }
    rng_state = strtoull(argv[1], 0, 10) * 0x9E3779B97F4A7C15ULL | 1;
    long events = atol(argv[2]);
    setenv("XDG_DATA_HOME", argv[3], 1);
    Kept kept[KEEP]; memset(kept, 0, sizeof kept);
    int nkept = 0;
    for (int round = 0; round < 3; round++) {
        int layout = round % 3, ansi = 0;
        Config *cfg = make_config(layout, &ansi, 1);
        calls[F_CTX_NEW]++; RitiContext *ctx = riti_context_new_with_config(cfg);
        int fixed = layout != 0;
        size_t on_screen = 0, highlight = 0;
        for (long e = 0; e < events; e++) {
            size_t r = below(100);
            Suggestion *s = 0;
            if (r < 62) {
                uint16_t k = fixed ? keys_fx[below(sizeof keys_fx / sizeof *keys_fx)] : keys_ph[below(sizeof keys_ph / sizeof *keys_ph)];
                calls[F_KEY]++; s = riti_get_suggestion_for_key(ctx, k, below(8) == 0 ? 2 : 0, (uint8_t)highlight);
            } else if (r < 74) {
                calls[F_BS]++; s = riti_context_backspace_event(ctx, below(4) == 0);
            } else if (r < 82) {
                if (on_screen) { calls[F_COMMIT]++; riti_context_candidate_committed(ctx, below(2) ? (highlight < on_screen ? highlight : on_screen - 1) : below(on_screen)); }
            } else if (r < 86) {
                calls[F_FINISH]++; riti_context_finish_input_session(ctx); on_screen = 0; highlight = 0;
            } else if (r < 90) {
                calls[F_ONGOING]++; (void)riti_context_ongoing_input_session(ctx);
            } else if (r < 93) {
                calls[F_ONGOING]++;
                if (!riti_context_ongoing_input_session(ctx)) {
                    /* re-configure while idle: new config object, freed right after the call (the context must own a copy) */
                    int l2 = below(3), a2 = 0;
                    Config *c2 = make_config(l2, &a2, below(4) != 0);
                    calls[F_UPDATE]++; riti_context_update_engine(ctx, c2);
                    calls[F_CFG_FREE]++; riti_config_free(c2);
                    fixed = l2 != 0; ansi = a2; on_screen = 0; highlight = 0;
                }
            } else if (r < 97 && nkept) {
                /* read a kept suggestion again, long after its context moved on */
                size_t i = below(nkept);
                Snap again = snap(kept[i].s, kept[i].ansi);
                snap_cmp(&kept[i].first, &again, "suggestion changed after later events on its context");
                snap_free(&again);
            } else {
                calls[F_STR_FREE]++; riti_string_free(NULL);
            }
            if (s) {
                Snap n = snap(s, ansi);
                on_screen = n.lonely ? (n.empty ? 0 : 1) : n.len;
                highlight = n.lonely ? 0 : (n.sel < n.len ? n.sel : (n.len ? n.len - 1 : 0));
                if (below(5) == 0) {
                    if (nkept == KEEP) {
                        size_t i = below(KEEP);
                        Snap again = snap(kept[i].s, kept[i].ansi);
                        snap_cmp(&kept[i].first, &again, "suggestion changed before it was freed");
                        snap_free(&again); snap_free(&kept[i].first);
                        calls[F_SUGG_FREE]++; riti_suggestion_free(kept[i].s);
                        kept[i] = kept[--nkept];
                    }
                    kept[nkept].s = s; kept[nkept].first = n; kept[nkept].ansi = ansi; nkept++;
                } else {
                    snap_free(&n);
                    calls[F_SUGG_FREE]++; riti_suggestion_free(s);
                }
            }
        }
        calls[F_CTX_FREE]++; riti_context_free(ctx);
        calls[F_CFG_FREE]++; riti_config_free(cfg);
        /* kept suggestions outlive their context */
        for (int i = 0; i < nkept; i++) {
            Snap again = snap(kept[i].s, kept[i].ansi);
            snap_cmp(&kept[i].first, &again, "suggestion changed after its context was freed");
            snap_free(&again);
        }
    }
    for (int i = 0; i < nkept; i++) { snap_free(&kept[i].first); calls[F_SUGG_FREE]++; riti_suggestion_free(kept[i].s); }
    printf("{\"cdrv\":true,\"failures\":%d,\"comparisons\":%lu,\"calls\":{", failures, comparisons);
    for (int i = 0; i < F_N; i++) printf("%s\"%s\":%lu", i ? "," : "", names[i], calls[i]);
    printf("}}\n");
    return failures ? 1 : 0;
}
