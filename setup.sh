#!/bin/bash
# MANIFEST.setup_cmd: build everything the checks need, offline, from files on disk only.
# (Every ./check rebuilds incrementally from /repo's working tree anyway; this only warms the build caches.)
set -u
export CARGO_NET_OFFLINE=true
cd /verif/harness && cargo build --release --offline || exit 1
mkdir -p /verif/evidence /verif/replays
# C19 engines: plain + ASan driver, libriti.a + C driver, Miri sysroot and driver
cd /verif/ffidrv || exit 1
cargo build --release --offline --target-dir /verif/target/ffi-plain || exit 1
RUSTFLAGS="-Zsanitizer=address -Cforce-frame-pointers=yes" cargo +nightly build --release --offline --target x86_64-unknown-linux-gnu --target-dir /verif/target/ffi-asan || exit 1
(cd /repo && cargo build --release --offline --target-dir /verif/target/repo-rel) || exit 1
MIRIFLAGS="-Zmiri-disable-isolation" cargo +nightly miri run --offline --target-dir /verif/target/ffi-miri -- 1 0 small /dev/shm/verif-miri-warm 0 || exit 1
echo "setup done"
